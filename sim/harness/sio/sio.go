// Package sio is the scripted byte stream of DESIGN.md section 3.5 and the
// generators of signatures and well-formed data. It is not instrumented: it
// is called millions of times and contains no scheduling point.
package sio

import (
	"errors"
	"io"
	"math/rand/v2"

	"qsimharness/ref"
)

// Reader is the scripted byte stream of DESIGN.md section 3.5: it
// decides how reads fragment, where the stream ends and how the end
// manifests.
type Reader struct {
	Data    []byte
	Off     int
	Frag    string // greedy | byte | random
	R       *rand.Rand
	EndErr  error // error returned once the data is exhausted
	WithEnd bool  // the last chunk is returned together with EndErr
	Reads   int
	zero    int
}

// ErrReset is a connection reset.
var ErrReset = errors.New("read: connection reset by peer")

func (s *Reader) Read(p []byte) (int, error) {
	s.Reads++
	if len(p) == 0 {
		return 0, nil
	}
	left := len(s.Data) - s.Off
	if left == 0 {
		s.zero++
		if s.zero > 1000 {
			panic("Reader: decoder spins on an exhausted stream")
		}
		return 0, s.EndErr
	}
	n := left
	if n > len(p) {
		n = len(p)
	}
	switch s.Frag {
	case "byte":
		n = 1
	case "random":
		if n > 1 {
			if s.R.IntN(3) == 0 {
				n = 1 + s.R.IntN(n)
			} else if n > 7 {
				n = 1 + s.R.IntN(7)
			}
		}
	}
	copy(p, s.Data[s.Off:s.Off+n])
	s.Off += n
	if s.Off == len(s.Data) && s.WithEnd {
		return n, s.EndErr
	}
	return n, nil
}

// RecWriter records what is written and the boundaries of the Write calls.
type RecWriter struct {
	Data  []byte
	Calls []int
}

func (w *RecWriter) Write(p []byte) (int, error) {
	w.Data = append(w.Data, p...)
	w.Calls = append(w.Calls, len(p))
	return len(p), nil
}

// ShortWriter takes at most a few bytes per call and reports the short count
// without an error (not what io.Writer asks for, but what basic.WriteN's
// retry loop exists for).
type ShortWriter struct {
	Data  []byte
	Calls []int
	R     *rand.Rand
}

func (w *ShortWriter) Write(p []byte) (int, error) {
	n := len(p)
	if n > 1 {
		switch w.R.IntN(3) {
		case 0:
			n = 1 + w.R.IntN(n)
		case 1:
			n = 1 + w.R.IntN(min(n, 40))
		}
	}
	w.Data = append(w.Data, p[:n]...)
	w.Calls = append(w.Calls, n)
	return n, nil
}

// SlowWriter is a stream whose Write takes its bytes in two instalments with
// a pause in between (a blocking write to a slow peer): whoever else runs in
// the pause must not be able to change what the second instalment carries.
type SlowWriter struct {
	Data  []byte
	Calls []int
	Pause func()
}

func (w *SlowWriter) Write(p []byte) (int, error) {
	k := len(p) / 2
	w.Data = append(w.Data, p[:k]...)
	if w.Pause != nil {
		w.Pause()
	}
	w.Data = append(w.Data, p[k:]...)
	w.Calls = append(w.Calls, len(p))
	return len(p), nil
}

// --- generators of signatures and well-formed data ---------------------------

type SigGen struct {
	R *rand.Rand
	// Large, when set, is how many strings / raw buffers of the data may
	// still be drawn large (sizes around the powers of two a reader could
	// use as a chunk size).
	Large *int
}

var largeSizes = []int{4095, 4096, 4097, 65535, 65536, 65537, 131072, 196608, 200000}

var scalarSigs = []string{"b", "c", "C", "w", "W", "i", "I", "l", "L", "f", "d", "s", "s", "m", "r", "o"}

// the structure "o" (a reference to an object) stands for on the wire: the
// description of the object, then the identifiers of its service and of itself
const objectWireSig = "(({I(Issss[(ss)<MetaMethodParameter,name,description>]s)<MetaMethod,uid,returnSignature,name,parametersSignature,description,parameters,returnDescription>}{I(Iss)<MetaSignal,uid,name,signature>}{I(Iss)<MetaProperty,uid,name,signature>}s)<MetaObject,methods,signals,properties,description>II)<ObjectReference,metaObject,serviceID,objectID>"

// Sig draws a signature of the documented grammar.
func (g SigGen) Sig(depth int) string {
	if depth <= 0 || g.R.IntN(3) == 0 {
		return scalarSigs[g.R.IntN(len(scalarSigs))]
	}
	switch g.R.IntN(4) {
	case 0:
		return "[" + g.Sig(depth-1) + "]"
	case 1:
		keys := []string{"s", "i", "I", "L"}
		return "{" + keys[g.R.IntN(len(keys))] + g.Sig(depth-1) + "}"
	case 2:
		n := 1 + g.R.IntN(3)
		s := "("
		for i := 0; i < n; i++ {
			s += g.Sig(depth - 1)
		}
		return s + ")"
	default:
		n := 1 + g.R.IntN(3)
		s := "("
		names := ""
		for i := 0; i < n; i++ {
			s += g.Sig(depth - 1)
			names += "," + string(rune('a'+i))
		}
		return s + ")<S" + string(rune('A'+g.R.IntN(26))) + names + ">"
	}
}

func (g SigGen) Str() string {
	n := []int{0, 1, 3, 9, 40}[g.R.IntN(5)]
	b := make([]byte, n)
	for i := range b {
		b[i] = byte('a' + g.R.IntN(26))
	}
	return string(b)
}

// Data appends well-formed data for the signature; it returns the rest of
// the signature string.
func (g SigGen) Data(sig string, b *ref.Buf, depth int) string {
	if sig == "" {
		return ""
	}
	c := sig[0]
	rest := sig[1:]
	switch c {
	case 'b':
		b.U8(uint8(g.R.IntN(2)))
	case 'c', 'C':
		b.U8(uint8(g.R.IntN(256)))
	case 'w', 'W':
		b.U16(uint16(g.R.IntN(65536)))
	case 'i', 'I', 'f':
		b.U32(g.R.Uint32())
	case 'l', 'L', 'd':
		b.U64(g.R.Uint64())
	case 's', 'r':
		if g.Large != nil && *g.Large > 0 {
			*g.Large--
			p := make([]byte, largeSizes[g.R.IntN(len(largeSizes))])
			for i := range p {
				p[i] = byte('a' + g.R.IntN(26))
			}
			b.Str(string(p))
		} else {
			b.Str(g.Str())
		}
	case 'v':
	case 'o':
		g.Data(objectWireSig, b, depth)
	case 'm':
		inner := g.Sig(depth - 1)
		if depth <= 0 {
			inner = []string{"i", "s", "b", "L"}[g.R.IntN(4)]
		}
		if g.Large != nil && *g.Large > 0 {
			inner = []string{"r", "s"}[g.R.IntN(2)]
		}
		b.Str(inner)
		g.Data(inner, b, depth-1)
	case '[':
		n := g.R.IntN(4)
		b.U32(uint32(n))
		var after string
		if n == 0 {
			after = skipSig(rest)
		}
		for i := 0; i < n; i++ {
			after = g.Data(rest, b, depth-1)
		}
		return after[1:] // ]
	case '{':
		n := g.R.IntN(3)
		b.U32(uint32(n))
		var after string
		if n == 0 {
			after = skipSig(skipSig(rest))
		}
		for i := 0; i < n; i++ {
			after = g.Data(rest, b, depth-1)
			after = g.Data(after, b, depth-1)
		}
		return after[1:] // }
	case '(':
		for len(rest) > 0 && rest[0] != ')' {
			rest = g.Data(rest, b, depth-1)
		}
		rest = rest[1:]
		if len(rest) > 0 && rest[0] == '<' {
			for i := 0; i < len(rest); i++ {
				if rest[i] == '>' {
					return rest[i+1:]
				}
			}
		}
		return rest
	}
	return rest
}

// skipSig skips one complete type in a signature.
func skipSig(sig string) string {
	if sig == "" {
		return ""
	}
	switch sig[0] {
	case '[':
		return skipSig(sig[1:])[1:]
	case '{':
		return skipSig(skipSig(sig[1:]))[1:]
	case '(':
		rest := sig[1:]
		for len(rest) > 0 && rest[0] != ')' {
			rest = skipSig(rest)
		}
		rest = rest[1:]
		if len(rest) > 0 && rest[0] == '<' {
			for i := 0; i < len(rest); i++ {
				if rest[i] == '>' {
					return rest[i+1:]
				}
			}
		}
		return rest
	}
	return sig[1:]
}

var _ = io.EOF

// Payload builds a deterministic payload of the given size; with hdr it
// starts with bytes that look like a message header.
func Payload(size int, fill uint32, hdr []byte) []byte {
	p := make([]byte, size)
	for j := range p {
		p[j] = byte(fill) + byte(j*7)
	}
	if hdr != nil && size >= len(hdr) {
		copy(p, hdr)
	}
	return p
}
