// Package core is the uninstrumented part of the harness: case and verdict
// types, the shared recorder scenarios write into, the bubble runner and the
// minimiser.
package core

import (
	"encoding/json"
	"fmt"
	"math/rand/v2"
	"runtime"
	"sort"
	"strings"
	"sync"
	"testing"
	"testing/synctest"
	"time"

	"zzsim"
	"zzsim/simnet"
)

// Op is one generated workload operation; its meaning is the scenario's.
type Op struct {
	Kind  string `json:"k"`
	Actor int    `json:"a,omitempty"`
	X     int64  `json:"x,omitempty"`
	Y     int64  `json:"y,omitempty"`
	S     string `json:"s,omitempty"`
}

// Case is everything that decides one simulated run: the replay file.
type Case struct {
	Prop   string           `json:"prop"`
	Seed   uint64           `json:"seed"`
	Run    int              `json:"run"`
	Batch  string           `json:"batch,omitempty"`
	Sim    zzsim.Config     `json:"sim"`
	Net    simnet.Config    `json:"net"`
	Plan   []simnet.FaultAt `json:"plan,omitempty"`
	Params map[string]int   `json:"params,omitempty"`
	Ops    []Op             `json:"ops"`
	Tape   []int32          `json:"tape"`
	// Expect is filled in replay files: the violation class to reproduce.
	Expect string `json:"expect,omitempty"`
	Detail string `json:"detail,omitempty"`
}

// Clone copies a case deeply enough for the minimiser.
func (c *Case) Clone() *Case {
	d := *c
	d.Plan = append([]simnet.FaultAt(nil), c.Plan...)
	d.Ops = append([]Op(nil), c.Ops...)
	d.Tape = append([]int32(nil), c.Tape...)
	d.Params = map[string]int{}
	for k, v := range c.Params {
		d.Params[k] = v
	}
	d.Sim.HotFiles = append([]string(nil), c.Sim.HotFiles...)
	d.Net.FaultKind = append([]string(nil), c.Net.FaultKind...)
	return &d
}

// P returns a scenario parameter.
func (c *Case) P(name string, def int) int {
	if v, ok := c.Params[name]; ok {
		return v
	}
	return def
}

// Violation is one way a run broke the property.
type Violation struct {
	Class  string `json:"class"`  // stable key, e.g. "C04/wrong-reply"
	Detail string `json:"detail"` // human readable, may vary between runs
}

// Verdict of one run.
type Verdict struct {
	Violations   []Violation    `json:"violations,omitempty"`
	Inconclusive string         `json:"inconclusive,omitempty"`
	HarnessError string         `json:"harness_error,omitempty"`
	Stats        zzsim.Stats    `json:"stats"`
	Fired        map[string]int `json:"fired,omitempty"`
	Probes       map[string]int `json:"probes,omitempty"`
	Nontrivial   bool           `json:"nontrivial"`
	FPs          []uint64       `json:"-"`     // when set: the distinct non-trivial items of this run (instead of the schedule fingerprint)
	Evals        int            `json:"evals"` // when set: evaluations this run stands for (instead of 1)
	OpsDone      int            `json:"ops_done"`
	Sample       []string       `json:"sample,omitempty"`
	Notes        []string       `json:"notes,omitempty"`
	Trace        []string       `json:"trace,omitempty"`
}

// Has tells whether the verdict contains a violation of the class.
func (v *Verdict) Has(class string) bool {
	for _, x := range v.Violations {
		if x.Class == class {
			return true
		}
	}
	return false
}

// Hist is one recorded operation of the harness-level history.
type Hist struct {
	ID     int
	Client int
	Kind   string
	Arg    string
	Call   int64 // event sequence number at invocation
	Ret    int64 // at return; 0 = never returned
	Out    string
	Err    string
	OK     bool
	Aux    map[string]int64
}

func (h *Hist) String() string {
	st := "pending"
	if h.Ret != 0 {
		if h.OK {
			st = "ok " + h.Out
		} else {
			st = "err " + h.Err
		}
	}
	return fmt.Sprintf("[%d..%d] c%d %s(%s) -> %s", h.Call, h.Ret, h.Client, h.Kind, h.Arg, st)
}

// Exec is one execution of a service implementation method.
type Exec struct {
	Seq    int64
	Method string
	Obj    int
	Key    string // token key ("" when the method has no token)
	Text   string
	G      string
}

// Env is the recorder shared by a scenario's goroutines. It is protected by a
// real mutex with short critical sections and no yield point inside.
type Env struct {
	S  *zzsim.Sim
	NW *simnet.Network
	C  *Case
	// Alive lists, after the run, the goroutines that have not finished and
	// where each was last seen (to explain hangs).
	Alive []zzsim.GInfo

	mu     sync.Mutex
	hist   []*Hist
	execs  []Exec
	probes map[string]int
	notes  []string
	viol   []Violation
	vals   map[string]interface{}
}

// NewEnv creates the recorder.
func NewEnv(s *zzsim.Sim, nw *simnet.Network, c *Case) *Env {
	return &Env{S: s, NW: nw, C: c, probes: map[string]int{}, vals: map[string]interface{}{}}
}

// Invoke records the start of an operation.
func (e *Env) Invoke(client int, kind, arg string) *Hist {
	h := &Hist{Client: client, Kind: kind, Arg: arg, Call: zzsim.Seq()}
	e.mu.Lock()
	h.ID = len(e.hist)
	e.hist = append(e.hist, h)
	e.mu.Unlock()
	zzsim.Event("invoke c%d %s(%s)", client, kind, arg)
	return h
}

// Return records the end of an operation.
func (e *Env) Return(h *Hist, out string, err error) {
	seq := zzsim.Seq()
	e.mu.Lock()
	if h.Ret != 0 {
		e.viol = append(e.viol, Violation{e.C.Prop + "/harness/double-return", h.String()})
	}
	h.Ret = seq
	h.Out = out
	if err != nil {
		h.Err = err.Error()
	} else {
		h.OK = true
	}
	e.mu.Unlock()
	zzsim.Event("return c%d %s -> %s %v", h.Client, h.Kind, out, err)
}

// SetAux attaches a number to a history entry.
func (e *Env) SetAux(h *Hist, k string, v int64) {
	e.mu.Lock()
	if h.Aux == nil {
		h.Aux = map[string]int64{}
	}
	h.Aux[k] = v
	e.mu.Unlock()
}

// Executed records that a service method body ran; returns the ordinal of
// this execution (1 based, over all executions of the run).
func (e *Env) Executed(method string, obj int, key, text string) int {
	seq := zzsim.Seq()
	g := zzsim.GName()
	e.mu.Lock()
	e.execs = append(e.execs, Exec{seq, method, obj, key, text, g})
	n := len(e.execs)
	e.mu.Unlock()
	zzsim.Event("exec %s obj=%d %s", method, obj, key)
	return n
}

// Probe counts a rare condition.
func (e *Env) Probe(name string) {
	e.mu.Lock()
	e.probes[name]++
	e.mu.Unlock()
}

// ProbeN adds n to a counter.
func (e *Env) ProbeN(name string, n int) {
	e.mu.Lock()
	e.probes[name] += n
	e.mu.Unlock()
}

// Note adds a line to the run's narrative (kept for samples and replays).
func (e *Env) Note(format string, args ...interface{}) {
	msg := fmt.Sprintf(format, args...)
	e.mu.Lock()
	e.notes = append(e.notes, msg)
	e.mu.Unlock()
	if zzsim.Tracing() {
		zzsim.Event("note %s", msg)
	}
}

// Violate records a violation found while the run proceeds.
func (e *Env) Violate(class, format string, args ...interface{}) {
	e.mu.Lock()
	e.viol = append(e.viol, Violation{e.C.Prop + "/" + class, fmt.Sprintf(format, args...)})
	e.mu.Unlock()
}

// Set stores a scenario value (for Check).
func (e *Env) Set(k string, v interface{}) {
	e.mu.Lock()
	e.vals[k] = v
	e.mu.Unlock()
}

// Get returns a scenario value.
func (e *Env) Get(k string) interface{} {
	e.mu.Lock()
	defer e.mu.Unlock()
	return e.vals[k]
}

// History returns the recorded operations.
func (e *Env) History() []*Hist {
	e.mu.Lock()
	defer e.mu.Unlock()
	return append([]*Hist(nil), e.hist...)
}

// Execs returns the execution log.
func (e *Env) Execs() []Exec {
	e.mu.Lock()
	defer e.mu.Unlock()
	return append([]Exec(nil), e.execs...)
}

// Probes returns the probe counters.
func (e *Env) Probes() map[string]int {
	e.mu.Lock()
	defer e.mu.Unlock()
	m := map[string]int{}
	for k, v := range e.probes {
		m[k] = v
	}
	return m
}

// Notes returns the narrative.
func (e *Env) Notes() []string {
	e.mu.Lock()
	defer e.mu.Unlock()
	return append([]string(nil), e.notes...)
}

// Scenario is the per-property workload and oracle.
type Scenario interface {
	// Gen draws a case (configuration and workload) for run number `run`.
	Gen(r *rand.Rand, tier string, run int) *Case
	// Run executes the workload; it runs on the simulated goroutine "main".
	Run(c *Case, env *Env)
	// Check evaluates the recorded history after the scheduler stopped; it
	// runs on the bubble's root goroutine.
	Check(c *Case, env *Env, res zzsim.Result, v *Verdict)
}

// JobSeed is VERIF_SEED as given to the worker (for generators that group
// runs into blocks sharing a configuration).
var JobSeed uint64

var scenarios = map[string]func() Scenario{}

// Register makes a scenario known.
func Register(prop string, f func() Scenario) { scenarios[prop] = f }

// Lookup returns a fresh scenario for the property.
func Lookup(prop string) Scenario {
	f := scenarios[prop]
	if f == nil {
		return nil
	}
	return f()
}

// Props lists the registered properties.
func Props() []string {
	var ps []string
	for p := range scenarios {
		ps = append(ps, p)
	}
	sort.Strings(ps)
	return ps
}

func normalize(msg string) string {
	// class keys must not contain run-specific numbers or addresses
	var b strings.Builder
	prevDigit := false
	for _, r := range msg {
		if r >= '0' && r <= '9' {
			if !prevDigit {
				b.WriteByte('N')
			}
			prevDigit = true
			continue
		}
		prevDigit = false
		if r == '\n' {
			break
		}
		b.WriteRune(r)
	}
	s := b.String()
	if len(s) > 100 {
		s = s[:100]
	}
	return strings.TrimSpace(s)
}

// faultInRepo tells whether the function that panicked belongs to the code
// under test (a library call made by a harness goroutine that blows up is a
// crash of the process that made it, not a defect of the harness).
func faultInRepo(stack string) bool {
	after := false
	for _, l := range strings.Split(stack, "\n") {
		if strings.HasPrefix(l, "\t") || l == "" {
			continue
		}
		if strings.HasPrefix(l, "panic(") {
			after = true
			continue
		}
		if !after || strings.HasPrefix(l, "runtime.") || strings.HasPrefix(l, "runtime/") {
			continue
		}
		return strings.HasPrefix(l, "github.com/lugu/qiloop/")
	}
	return false
}

// CrashClass is the class key of a crash.
func CrashClass(prop string, c zzsim.Crash) string {
	where := ""
	for _, l := range strings.Split(c.Stack, "\n") {
		l = strings.TrimSpace(l)
		if strings.HasPrefix(l, "github.com/lugu/qiloop/") {
			where = strings.TrimPrefix(l, "github.com/lugu/qiloop/")
			if i := strings.Index(where, "(...)"); i >= 0 {
				where = where[:i]
			}
			break
		}
	}
	return prop + "/crash/" + normalize(c.Msg) + "@" + where
}

// Execute runs one case inside a fresh bubble. When recording, decisions are
// drawn from a PRNG seeded with tapeSeed and stored into c.Tape; otherwise
// c.Tape is replayed (decisions beyond its end are 0).
func Execute(t *testing.T, sc Scenario, c *Case, recording bool, tapeSeed uint64, trace bool) (v Verdict) {
	var tape *zzsim.Tape
	if recording {
		tape = zzsim.NewRecordingTape(tapeSeed)
	} else {
		tape = zzsim.NewReplayTape(c.Tape)
	}
	cfg := c.Sim
	cfg.Trace = trace
	done := false
	var envOut *Env
	func() {
		defer func() {
			if r := recover(); r != nil {
				if !done {
					v.HarnessError = fmt.Sprintf("panic outside the simulated run: %v", r)
				}
			}
		}()
		synctest.Test(t, func(t *testing.T) {
			s := zzsim.New(cfg, tape)
			nw := simnet.Of(s)
			nw.Configure(c.Net, c.Plan, c.P("keep_ops", 0) == 1)
			env := NewEnv(s, nw, c)
			s.Activate()
			s.Go("main", "harness", func() { sc.Run(c, env) })
			res := s.Loop()
			s.Deactivate()
			env.Alive = s.Alive()
			v.Stats = s.Finish()
			v.Fired = map[string]int{}
			for k, n := range nw.Fired {
				v.Fired[k] = n
			}
			for _, cr := range s.Crashes() {
				if (cr.Node == "harness" || cr.Node == "") && !faultInRepo(cr.Stack) {
					v.HarnessError = fmt.Sprintf("harness goroutine %s crashed: %s\n%s", cr.Goroutine, cr.Msg, cr.Stack)
					continue
				}
				v.Violations = append(v.Violations, Violation{CrashClass(c.Prop, cr),
					fmt.Sprintf("node %s died in goroutine %s: %s\n%s", cr.Node, cr.Goroutine, cr.Msg, cr.Stack)})
			}
			// conflicting accesses to one map that nothing orders: with real
			// threads the run-time kills the process, and with it whatever the
			// property promises: a violation in every scenario.
			for _, mr := range s.MapRaces() {
				a, b := mr.First, mr.Second
				if b < a {
					a, b = b, a
				}
				kind := func(w bool) string {
					if w {
						return "write"
					}
					return "read"
				}
				v.Violations = append(v.Violations, Violation{c.Prop + "/crash/concurrent-map-access@" + a + "+" + b,
					fmt.Sprintf("node %s: goroutine %s %s a map at %s and had executed nothing since when goroutine %s %s the same map at %s: no lock, channel or other synchronisation orders the two accesses; on real threads they can overlap and the run-time stops the process (fatal error: concurrent map %s)",
						mr.Node, mr.G1, kind(mr.FirstWrite)+"s", mr.First, mr.G2, kind(mr.SecondWrite)+"s", mr.Second,
						map[bool]string{true: "writes", false: "read and map write"}[mr.FirstWrite && mr.SecondWrite])})
			}
			if res.StepCap {
				v.Inconclusive = "step cap reached"
				if j, ok := sc.(StepCapJudge); ok {
					if viol := j.StepCapReached(c, env, s.Last()); viol != nil {
						v.Inconclusive = ""
						v.Violations = append(v.Violations, *viol)
					}
				}
			}
			env.mu.Lock()
			v.Violations = append(v.Violations, env.viol...)
			env.mu.Unlock()
			if v.HarnessError == "" && !res.StepCap {
				sc.Check(c, env, res, &v)
			}
			v.Probes = env.Probes()
			if trace {
				v.Notes = env.Notes()
				v.Trace = s.Trace()
				// where every goroutine of the run stands (to explain hangs)
				buf := make([]byte, 1<<20)
				n := runtime.Stack(buf, true)
				for _, l := range strings.Split(string(buf[:n]), "\n") {
					v.Trace = append(v.Trace, "STACK "+l)
				}
			}
			if len(v.Sample) == 0 {
				for _, h := range env.History() {
					v.Sample = append(v.Sample, h.String())
				}
			}
			env.S = nil
			envOut = env
			done = true
		})
	}()
	if recording {
		c.Tape = append([]int32(nil), tape.Data...)
	}
	// checks that must not run inside the bubble (porcupine starts goroutines
	// and timers of its own)
	if pc, ok := sc.(PostChecker); ok && done && envOut != nil && v.HarnessError == "" && v.Inconclusive == "" {
		pc.PostCheck(c, envOut, &v)
	}
	if envOut != nil && envOut.NW != nil {
		envOut.NW.Release()
	}
	return v
}

// StepCapJudge is implemented by scenarios for which a run that exhausts its
// budget of scheduling steps is a verdict, not an accident: the workload is
// small, so somebody is spinning. It is told which goroutine ran last.
type StepCapJudge interface {
	StepCapReached(c *Case, env *Env, last zzsim.GInfo) *Violation
}

// PostChecker is implemented by scenarios whose oracle has a part that runs
// after the bubble has ended.
type PostChecker interface {
	PostCheck(c *Case, env *Env, v *Verdict)
}

// Minimize shrinks a failing case while the violation class persists.
func Minimize(t *testing.T, sc func() Scenario, c *Case, class string, budget int, limit time.Duration) (*Case, int) {
	best := c.Clone()
	tries := 0
	deadline := time.Now().Add(limit)
	try := func(cand *Case) bool {
		if tries >= budget || time.Now().After(deadline) {
			return false
		}
		tries++
		v := Execute(t, sc(), cand, false, 0, false)
		if v.HarnessError == "" && v.Has(class) {
			best = cand
			return true
		}
		return false
	}
	// 1. simpler configuration
	simplify := []func(*Case) bool{
		func(d *Case) bool { ch := d.Net.FaultGap != 0; d.Net.FaultGap = 0; return ch },
		func(d *Case) bool { ch := len(d.Plan) != 0; d.Plan = nil; return ch },
		func(d *Case) bool { ch := d.Net.ReadMode != "greedy"; d.Net.ReadMode = "greedy"; return ch },
		func(d *Case) bool { ch := d.Net.Capacity != 0; d.Net.Capacity = 0; return ch },
		func(d *Case) bool { ch := d.Net.Abortive != 0; d.Net.Abortive = 0; return ch },
		func(d *Case) bool { ch := d.Net.EOFData != 0; d.Net.EOFData = 0; return ch },
		func(d *Case) bool { ch := d.Net.IOYield; d.Net.IOYield = false; return ch },
		func(d *Case) bool { ch := d.Net.LateWrite; d.Net.LateWrite = false; return ch },
		func(d *Case) bool { ch := d.Net.CloseErr != 0; d.Net.CloseErr = 0; return ch },
	}
	for _, f := range simplify {
		d := best.Clone()
		if f(d) {
			try(d)
		}
	}
	// 1b. fewer actors, then fewer operations, while the tape is still whole
	dropOps := func() {
		actors := map[int]bool{}
		for _, op := range best.Ops {
			actors[op.Actor] = true
		}
		if len(actors) > 1 {
			var ids []int
			for a := range actors {
				ids = append(ids, a)
			}
			sort.Ints(ids)
			for _, a := range ids {
				d := best.Clone()
				d.Ops = d.Ops[:0]
				for _, op := range best.Ops {
					if op.Actor != a {
						d.Ops = append(d.Ops, op)
					}
				}
				if len(d.Ops) > 0 && len(d.Ops) < len(best.Ops) {
					try(d)
				}
			}
		}
		for i := len(best.Ops) - 1; i >= 0; i-- {
			if i >= len(best.Ops) {
				continue
			}
			d := best.Clone()
			d.Ops = append(d.Ops[:i:i], d.Ops[i+1:]...)
			try(d)
		}
	}
	dropOps()
	// 2. shorter tape (everything after the cut is decision 0)
	for n := len(best.Tape) / 2; n >= 1 && len(best.Tape) > 0; n /= 2 {
		for {
			if len(best.Tape) <= n {
				break
			}
			d := best.Clone()
			d.Tape = d.Tape[:len(d.Tape)-n]
			if !try(d) {
				break
			}
		}
	}
	// 3. fewer operations, again
	dropOps()
	// 4. zero chunks of the tape
	for size := len(best.Tape) / 2; size >= 1; size /= 2 {
		for off := 0; off+size <= len(best.Tape); off += size {
			nonzero := false
			for _, x := range best.Tape[off : off+size] {
				if x != 0 {
					nonzero = true
					break
				}
			}
			if !nonzero {
				continue
			}
			d := best.Clone()
			for i := off; i < off+size; i++ {
				d.Tape[i] = 0
			}
			try(d)
		}
		if tries >= budget || time.Now().After(deadline) {
			break
		}
	}
	// 5. drop trailing zeros
	n := len(best.Tape)
	for n > 0 && best.Tape[n-1] == 0 {
		n--
	}
	best.Tape = best.Tape[:n]
	if best.Tape == nil {
		best.Tape = []int32{}
	}
	return best, tries
}

// JSON renders v for the result stream.
func JSON(v interface{}) string {
	b, err := json.Marshal(v)
	if err != nil {
		return fmt.Sprintf("{\"error\":%q}", err.Error())
	}
	return string(b)
}
