package core

import (
	"github.com/lugu/qiloop/bus"

	"zzsim"
)

// The server ranges over its connections (a map keyed by bus.Channel, which
// has no order of its own): they are taken in the order of their peers'
// addresses, or in the opposite one when the run asks for it
// (Ext["channels_last_first"]). This package is not instrumented: the
// comparisons of a sort, whose number depends on the order the map happened
// to give, must not pass yield points.
func init() {
	zzsim.KeyOrder = func(k interface{}) (string, bool) {
		ch, ok := k.(bus.Channel)
		if !ok || ch.EndPoint() == nil {
			return "", false
		}
		name := ch.EndPoint().String()
		if s := zzsim.Current(); s != nil && s.Ext["channels_last_first"] != nil {
			b := []byte(name)
			for i := range b {
				b[i] = 255 - b[i]
			}
			name = string(b)
		}
		return name, true
	}
}
