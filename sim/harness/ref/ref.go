// Package ref is the harness's own statement of the wire format, written
// from doc/about-qimessaging.md and independent of bus/net: a 28 byte header
// (big-endian magic 0x42dead42, then little-endian id, size, u16 version, u8
// type, u8 flags, service, object, action) followed by the payload.
package ref

import (
	"bytes"
	"encoding/binary"
	"errors"
	"fmt"
)

const (
	Magic      = 0x42dead42
	HeaderSize = 28

	Call       = 1
	Reply      = 2
	Error      = 3
	Post       = 4
	Event      = 5
	Capability = 6
	Cancel     = 7
	Cancelled  = 8
)

// TypeName names a message type.
func TypeName(t uint8) string {
	switch t {
	case Call:
		return "call"
	case Reply:
		return "reply"
	case Error:
		return "error"
	case Post:
		return "post"
	case Event:
		return "event"
	case Capability:
		return "capability"
	case Cancel:
		return "cancel"
	case Cancelled:
		return "cancelled"
	}
	return fmt.Sprintf("type%d", t)
}

// Frame is one message.
type Frame struct {
	Magic   uint32
	ID      uint32
	Size    uint32
	Version uint16
	Type    uint8
	Flags   uint8
	Service uint32
	Object  uint32
	Action  uint32
	Payload []byte
	// End is the offset just after the frame in the stream it was parsed from.
	End int
}

func (f Frame) String() string {
	return fmt.Sprintf("%s id=%d s=%d o=%d a=%d len=%d", TypeName(f.Type), f.ID, f.Service, f.Object, f.Action, len(f.Payload))
}

// NewFrame builds a well-formed frame.
func NewFrame(typ uint8, service, object, action, id uint32, payload []byte) Frame {
	return Frame{Magic: Magic, ID: id, Size: uint32(len(payload)), Type: typ, Service: service, Object: object, Action: action, Payload: payload}
}

// Encode serialises the frame with the header fields exactly as given.
func (f Frame) Encode() []byte {
	b := make([]byte, HeaderSize, HeaderSize+len(f.Payload))
	binary.BigEndian.PutUint32(b[0:], f.Magic)
	binary.LittleEndian.PutUint32(b[4:], f.ID)
	binary.LittleEndian.PutUint32(b[8:], f.Size)
	binary.LittleEndian.PutUint16(b[12:], f.Version)
	b[14] = f.Type
	b[15] = f.Flags
	binary.LittleEndian.PutUint32(b[16:], f.Service)
	binary.LittleEndian.PutUint32(b[20:], f.Object)
	binary.LittleEndian.PutUint32(b[24:], f.Action)
	return append(b, f.Payload...)
}

// ErrShort is returned when the stream ends inside a frame.
var ErrShort = errors.New("ref: incomplete frame")

// ParseHeader decodes a header without judging it.
func ParseHeader(b []byte) (Frame, error) {
	if len(b) < HeaderSize {
		return Frame{}, ErrShort
	}
	return Frame{
		Magic:   binary.BigEndian.Uint32(b[0:]),
		ID:      binary.LittleEndian.Uint32(b[4:]),
		Size:    binary.LittleEndian.Uint32(b[8:]),
		Version: binary.LittleEndian.Uint16(b[12:]),
		Type:    b[14],
		Flags:   b[15],
		Service: binary.LittleEndian.Uint32(b[16:]),
		Object:  binary.LittleEndian.Uint32(b[20:]),
		Action:  binary.LittleEndian.Uint32(b[24:]),
	}, nil
}

// ParseStream splits a byte stream into frames. It returns the frames that
// are complete, the number of bytes they cover and an error if the stream is
// not a clean sequence of frames (a trailing incomplete frame is not an
// error: rest > 0).
func ParseStream(b []byte) (frames []Frame, consumed int, err error) {
	off := 0
	for off < len(b) {
		if len(b)-off < HeaderSize {
			break
		}
		f, _ := ParseHeader(b[off:])
		if f.Magic != Magic {
			return frames, off, fmt.Errorf("ref: bad magic %#x at offset %d", f.Magic, off)
		}
		if f.Version != 0 {
			return frames, off, fmt.Errorf("ref: bad version %d at offset %d", f.Version, off)
		}
		if f.Type == 0 || f.Type > 8 {
			return frames, off, fmt.Errorf("ref: bad type %d at offset %d", f.Type, off)
		}
		if f.Size > 64<<20 {
			return frames, off, fmt.Errorf("ref: absurd size %d at offset %d", f.Size, off)
		}
		if len(b)-off-HeaderSize < int(f.Size) {
			break
		}
		f.Payload = b[off+HeaderSize : off+HeaderSize+int(f.Size)]
		off += HeaderSize + int(f.Size)
		f.End = off
		frames = append(frames, f)
	}
	return frames, off, nil
}

// --- values -----------------------------------------------------------------

// Buf is a little-endian writer.
type Buf struct{ bytes.Buffer }

func (b *Buf) U8(v uint8)   { b.WriteByte(v) }
func (b *Buf) U16(v uint16) { var x [2]byte; binary.LittleEndian.PutUint16(x[:], v); b.Write(x[:]) }
func (b *Buf) U32(v uint32) { var x [4]byte; binary.LittleEndian.PutUint32(x[:], v); b.Write(x[:]) }
func (b *Buf) U64(v uint64) { var x [8]byte; binary.LittleEndian.PutUint64(x[:], v); b.Write(x[:]) }
func (b *Buf) I32(v int32)  { b.U32(uint32(v)) }
func (b *Buf) I64(v int64)  { b.U64(uint64(v)) }
func (b *Buf) Str(s string) { b.U32(uint32(len(s))); b.WriteString(s) }

// ValStr writes a dynamic value holding a string ("s" signature then data).
func (b *Buf) ValStr(s string) { b.Str("s"); b.Str(s) }

// ValU32 writes a dynamic value holding a uint32.
func (b *Buf) ValU32(v uint32) { b.Str("I"); b.U32(v) }

// ValI32 writes a dynamic value holding an int32.
func (b *Buf) ValI32(v int32) { b.Str("i"); b.I32(v) }

// ValBool writes a dynamic value holding a bool.
func (b *Buf) ValBool(v bool) {
	b.Str("b")
	if v {
		b.U8(1)
	} else {
		b.U8(0)
	}
}

// Rd is a little-endian reader that remembers failure.
type Rd struct {
	B   []byte
	Off int
	Err error
}

func (r *Rd) take(n int) []byte {
	if r.Err != nil || n < 0 || len(r.B)-r.Off < n {
		if r.Err == nil {
			r.Err = ErrShort
		}
		return make([]byte, n&0xffff)
	}
	p := r.B[r.Off : r.Off+n]
	r.Off += n
	return p
}

func (r *Rd) U8() uint8   { return r.take(1)[0] }
func (r *Rd) U32() uint32 { return binary.LittleEndian.Uint32(r.take(4)) }
func (r *Rd) U64() uint64 { return binary.LittleEndian.Uint64(r.take(8)) }
func (r *Rd) I32() int32  { return int32(r.U32()) }
func (r *Rd) I64() int64  { return int64(r.U64()) }
func (r *Rd) Str() string {
	n := r.U32()
	if r.Err != nil {
		return ""
	}
	if int(n) > len(r.B)-r.Off {
		r.Err = ErrShort
		return ""
	}
	return string(r.take(int(n)))
}

// Left returns the number of unread bytes.
func (r *Rd) Left() int { return len(r.B) - r.Off }

// Token is the probe's struct argument: (iils).
type Token struct {
	Client int32
	Seq    int32
	Nonce  int64
	Text   string
}

func (t Token) String() string { return fmt.Sprintf("c%d#%d/%x:%s", t.Client, t.Seq, t.Nonce, t.Text) }

// Key identifies the operation a token belongs to.
func (t Token) Key() string { return fmt.Sprintf("c%d#%d/%x", t.Client, t.Seq, t.Nonce) }

// EncodeToken serialises a token.
func EncodeToken(t Token) []byte {
	var b Buf
	b.I32(t.Client)
	b.I32(t.Seq)
	b.I64(t.Nonce)
	b.Str(t.Text)
	return b.Bytes()
}

// DecodeToken parses a token and requires full consumption.
func DecodeToken(p []byte) (Token, error) {
	r := Rd{B: p}
	t := Token{Client: r.I32(), Seq: r.I32(), Nonce: r.I64(), Text: r.Str()}
	if r.Err != nil {
		return t, r.Err
	}
	if r.Left() != 0 {
		return t, fmt.Errorf("ref: %d trailing bytes after token", r.Left())
	}
	return t, nil
}

// CapEntry is one entry of a capability map, value pre-encoded.
type CapEntry struct {
	Key string
	Val []byte // dynamic value: signature string + data
}

// EncodeCapMap serialises a capability map: count then (string key, value).
func EncodeCapMap(entries []CapEntry) []byte {
	var b Buf
	b.U32(uint32(len(entries)))
	for _, e := range entries {
		b.Str(e.Key)
		b.Write(e.Val)
	}
	return b.Bytes()
}

// StrVal returns the encoding of a dynamic string value.
func StrVal(s string) []byte { var b Buf; b.ValStr(s); return b.Bytes() }

// U32Val returns the encoding of a dynamic uint32 value.
func U32Val(v uint32) []byte { var b Buf; b.ValU32(v); return b.Bytes() }

// I32Val returns the encoding of a dynamic int32 value.
func I32Val(v int32) []byte { var b Buf; b.ValI32(v); return b.Bytes() }

// BoolVal returns the encoding of a dynamic bool value.
func BoolVal(v bool) []byte { var b Buf; b.ValBool(v); return b.Bytes() }

// AuthPayload builds an authenticate request payload with string credentials.
func AuthPayload(user, token string) []byte {
	es := []CapEntry{
		{"ClientServerSocket", BoolVal(true)},
		{"MessageFlags", BoolVal(true)},
	}
	if user != "" {
		es = append(es, CapEntry{"auth_user", StrVal(user)})
	}
	if token != "" {
		es = append(es, CapEntry{"auth_token", StrVal(token)})
	}
	return EncodeCapMap(es)
}

// ErrorText extracts the string carried by an error frame payload.
func ErrorText(p []byte) string {
	r := Rd{B: p}
	sig := r.Str()
	if r.Err != nil || sig != "s" {
		return fmt.Sprintf("<unparsable error payload %x>", p)
	}
	s := r.Str()
	if r.Err != nil {
		return fmt.Sprintf("<unparsable error payload %x>", p)
	}
	return s
}
