package scen

import (
	"strings"
	"fmt"
	"math/rand/v2"
	"sort"
	"strconv"
	"sync"
	"time"

	"github.com/anishathalye/porcupine"
	"github.com/lugu/qiloop/bus"
	"github.com/lugu/qiloop/type/value"
	probe "github.com/lugu/qiloop/zzprobe"

	"qsimharness/core"
	"zzsim"
)

// C14: a property is an atomic, typed register with validated writes and
// change events.
type c14 struct{}

func init() { core.Register("C14", func() core.Scenario { return c14{} }) }

func (c14) Gen(r *rand.Rand, tier string, run int) *core.Case {
	c := &core.Case{Prop: "C14", Params: map[string]int{}}
	c.Sim = baseSim(r, []string{"bus/object.go", "bus/signal.go"})
	c.Net = baseNet(r)
	if c.Net.ReadMode == "tiny" {
		c.Net.ReadMode = "random"
	}
	clients := 2 + r.IntN(3)
	c.Params["clients"] = clients
	c.Params["conns"] = 1 + r.IntN(clients)
	c.Params["subscribers"] = 1 + r.IntN(2)
	if r.IntN(4) == 0 {
		c.Params["sibling"] = 1
		c.Params["sibling_after"] = 30 + r.IntN(200)
	}
	if r.IntN(3) == 0 {
		c.Params["resubscribed"] = 1 + r.IntN(3)
		c.Params["resubscribed_lifo"] = r.IntN(2)
	}
	c.Params["instrument"] = []int{0, 0, 0, 1, 2, 3}[r.IntN(6)]
	if r.IntN(4) == 0 {
		// subscribers that number their links themselves (as the clients of
		// the reference implementation do) and offer the same number for a
		// signal of the object
		c.Params["own_links"] = 1
	}
	if r.IntN(4) == 0 {
		c.Params["unset_level"] = 1
	}
	if r.IntN(4) == 0 {
		c.Params["broken"] = 1
		c.Params["break_after"] = r.IntN(80)
	}
	next := int64(1)
	total := 0
	for k := 0; k < clients && total < 13; k++ {
		n := 1 + r.IntN(4)
		for i := 0; i < n && total < 13; i++ {
			total++
			var op core.Op
			switch x := r.IntN(12); {
			case x < 4:
				op = core.Op{Kind: "get"}
			case x < 7:
				op = core.Op{Kind: "set", X: next}
				next++
			case x < 8:
				op = core.Op{Kind: "set-rejected", X: -next}
				next++
			case x < 10:
				op = core.Op{Kind: "set-wrong-type", X: int64(r.IntN(8)), Y: int64([]int{0, 0, 1, 1, 2, 3, 4}[r.IntN(7)]), S: strconv.Itoa(int(next))}
				next++
			case x < 11:
				op = core.Op{Kind: "rawget"}
			default:
				op = core.Op{Kind: "set-by-id", X: next}
				next++
			}
			op.Actor = k
			c.Ops = append(c.Ops, op)
		}
	}
	updates := r.IntN(3)
	if r.IntN(3) == 0 {
		// writes the validator refuses racing accepted service-side updates,
		// with a validator that takes its time
		c.Params["validator_yields"] = 1 + r.IntN(4)
		updates = 2 + r.IntN(3)
		for k := 0; k < clients && total < 15; k++ {
			c.Ops = append(c.Ops, core.Op{Kind: "set-rejected", Actor: k, X: -next})
			next++
			total++
		}
	}
	if r.IntN(3) == 0 {
		// the object's other property, written by the service alone and read
		// back at once: writes to one property must not touch the other
		for i := 0; i < 2+r.IntN(4); i++ {
			c.Ops = append(c.Ops, core.Op{Kind: "gauge", Actor: 67, X: int64(500 + i)})
		}
	}
	if r.IntN(3) == 0 {
		// a third property, of type string, published by a goroutine of the
		// service: some of its values are beyond any plausible threshold of
		// the write path. Its events travel to the subscribers' connections
		// beside those of the judged property
		c.Params["labels"] = 1
		for i := 0; i < 2+r.IntN(5); i++ {
			c.Ops = append(c.Ops, core.Op{Kind: "label", Actor: 68, X: int64(i + 1), Y: int64([]int{0, 100, 4096, 5000, 9000, 70000}[r.IntN(6)])})
		}
	}
	var lastUpdate int64
	for i := 0; i < updates; i++ {
		if lastUpdate != 0 && r.IntN(3) == 0 {
			// the service publishes a value it has published before (clients
			// may have written others in between): an accepted write like any
			// other, one more event carrying that value
			c.Ops = append(c.Ops, core.Op{Kind: "update", Actor: 60 + i%2*5, X: lastUpdate})
			continue
		}
		c.Ops = append(c.Ops, core.Op{Kind: "update", Actor: 60 + i%2*5, X: next})
		lastUpdate = next
		next++
	}
	// the service writes through the direct proxy of an object it created
	// itself (generated Create<Itf> / bus.DirectClient): those writes reach
	// the object through a second mailbox, concurrently with the clients'
	if r.IntN(4) == 0 {
		c.Batch = "direct-proxy"
		c.Params["direct"] = 1
		for i := 0; i < 2+r.IntN(3); i++ {
			c.Ops = append(c.Ops, core.Op{Kind: "direct-set", Actor: 66, X: next})
			next++
		}
	}
	// other subscribers come and go while writes are announced: they are not
	// judged themselves, the stable subscribers must not be disturbed
	if r.IntN(2) == 0 {
		churn := 1 + r.IntN(2)
		c.Params["churn"] = churn
		for i := 0; i < churn; i++ {
			c.Ops = append(c.Ops, core.Op{Kind: "churn-cancel", Actor: 61 + i, X: int64(i), Y: int64(r.IntN(10))})
		}
	}
	return c
}

type c14state struct {
	mu     sync.Mutex
	events [][]int32 // per subscriber
	closed []bool
	seen   map[int32]int64 // value -> sequence number at which a subscriber first received its change event
	subErr error
	// (the string property) numbers of the values published, and of those
	// each subscriber received (0: a value that is none of those published)
	labelsSent []int
	labels     [][]int
}

func (c14) Run(c *core.Case, env *core.Env) {
	st := &c14state{}
	env.Set("st", st)
	w, err := StartServer(env, bus.Dictionary(map[string]string{"u": "p"}), 1)
	if err != nil {
		env.Violate("harness/setup", "%v", err)
		return
	}
	w.Impls[0].ValidatorYields = c.P("validator_yields", 0)
	target := uint32(1)
	targetImpl := w.Impls[0]
	var direct probe.ProbeProxy
	if c.P("direct", 0) == 1 {
		zzsim.SetNode("server")
		impl := &ProbeImpl{Env: env, Obj: 1, ValidatorYields: c.P("validator_yields", 0)}
		direct, err = probe.CreateProbe(nil, w.Svc, impl)
		zzsim.SetNode("harness")
		if err != nil {
			env.Violate("harness/setup", "CreateProbe: %v", err)
			return
		}
		target = direct.Proxy().ObjectID()
		targetImpl = impl
	}
	nConn := c.P("conns", 1)
	var proxies []probe.ProbeProxy
	for i := 0; i < nConn; i++ {
		cl, err := Connect(fmt.Sprintf("client%d", i), "u", "p")
		if err != nil {
			env.Violate("setup/connect", "%v", err)
			return
		}
		p, err := ProbeProxy(cl, w.ServiceID, target)
		if err != nil {
			env.Violate("setup/proxy", "%v", err)
			return
		}
		proxies = append(proxies, p)
	}
	if k := c.P("instrument", 0); k > 0 {
		if k&1 != 0 {
			if err := proxies[0].EnableStats(true); err != nil {
				env.Violate("setup/stats", "%v", err)
				return
			}
		}
		if k&2 != 0 {
			if err := proxies[0].EnableTrace(true); err != nil {
				env.Violate("setup/trace", "%v", err)
				return
			}
		}
		env.Probe("object-instrumented")
	}
	if c.P("broken", 0) == 1 {
		// a subscriber of the property registered before everybody else that
		// becomes unreachable at some moment: the register and the events of
		// the others must not depend on it (the writer is told that one
		// subscriber could not be reached; the write stands)
		vpair := len(env.NW.Conns())
		vcl, err := Connect("victim", "u", "p")
		if err != nil {
			env.Violate("setup/connect", "%v", err)
			return
		}
		vp, err := ProbeProxy(vcl, w.ServiceID, target)
		if err != nil {
			env.Violate("setup/proxy", "%v", err)
			return
		}
		_, vch, err := vp.SubscribeLevel()
		if err != nil {
			env.Violate("setup/subscribe", "%v", err)
			return
		}
		go func() {
			for range vch {
			}
		}()
		BreakWritesLater(env, env.NW.Conns()[vpair], c.P("break_after", 0))
	}
	// churning subscribers register first (so that they are not the last
	// entries of the server's table) and leave during the run
	var churnCancel []func()
	for i := 0; i < c.P("churn", 0); i++ {
		cl, err := Connect(fmt.Sprintf("churn%d", i), "u", "p")
		if err != nil {
			env.Violate("setup/connect", "%v", err)
			return
		}
		p, err := ProbeProxy(cl, w.ServiceID, target)
		if err != nil {
			env.Violate("setup/proxy", "%v", err)
			return
		}
		cancel, ch, err := p.SubscribeLevel()
		if err != nil {
			env.Violate("setup/subscribe", "%v", err)
			return
		}
		churnCancel = append(churnCancel, cancel)
		go func() {
			for range ch {
			}
		}()
	}
	var sibling uint32
	if c.P("sibling", 0) == 1 && c.P("direct", 0) == 0 {
		zzsim.SetNode("server")
		sid, err := w.Svc.Add(probe.ProbeObject(&ProbeImpl{Env: env, Obj: 9}))
		zzsim.SetNode("harness")
		if err != nil {
			env.Violate("setup/sibling", "%v", err)
			return
		}
		sibling = sid
	}
	// subscribers, each on its own connection, subscribed for the whole run
	nSub := c.P("subscribers", 1)
	st.events = make([][]int32, nSub)
	st.labels = make([][]int, nSub)
	st.closed = make([]bool, nSub)
	for i := 0; i < nSub; i++ {
		cl, err := Connect(fmt.Sprintf("subscriber%d", i), "u", "p")
		if err != nil {
			env.Violate("setup/connect", "%v", err)
			return
		}
		p, err := ProbeProxy(cl, w.ServiceID, target)
		if err != nil {
			env.Violate("setup/proxy", "%v", err)
			return
		}
		if sibling != 0 {
			// the connection also watches the same property of a second object
			// of the service, which goes away during the run: what its
			// subscribers are told is no business of this object's
			sp, err := ProbeProxy(cl, w.ServiceID, sibling)
			if err != nil {
				env.Violate("setup/sibling", "%v", err)
				return
			}
			_, sch, err := sp.SubscribeLevel()
			if err != nil {
				env.Violate("setup/sibling", "%v", err)
				return
			}
			go func() {
				for range sch {
				}
			}()
		}
		// (the subscription judged may be the connection's third: two earlier
		// ones, overlapping, were cancelled one after the other before it)
		if pre := c.P("resubscribed", 0); pre > 0 {
			var cancels []func()
			for k := 0; k < pre; k++ {
				cancel, pch, err := p.SubscribeLevel()
				if err != nil {
					env.Violate("setup/subscribe", "%v", err)
					return
				}
				go func() {
					for range pch {
					}
				}()
				cancels = append(cancels, cancel)
			}
			if c.P("resubscribed_lifo", 0) == 1 {
				for k := len(cancels) - 1; k >= 0; k-- {
					cancels[k]()
				}
			} else {
				for _, cancel := range cancels {
					cancel()
				}
			}
		}
		if c.P("labels", 0) == 1 {
			_, lch, err := p.SubscribeLabel()
			if err != nil {
				env.Violate("setup/subscribe-label", "%v", err)
				return
			}
			go func(i int) {
				for v := range lch {
					st.mu.Lock()
					st.labels[i] = append(st.labels[i], c14labelNo(v))
					st.mu.Unlock()
				}
			}(i)
		}
		var ch chan int32
		if c.P("own_links", 0) == 1 {
			ch, err = c14ownLink(env, cl, p, w.ServiceID, target, uint64(7+i))
		} else {
			_, ch, err = p.SubscribeLevel()
		}
		if err != nil {
			env.Violate("setup/subscribe", "%v", err)
			return
		}
		go func(i int) {
			for v := range ch {
				st.mu.Lock()
				st.events[i] = append(st.events[i], v)
				if st.seen == nil {
					st.seen = map[int32]int64{}
				}
				if _, ok := st.seen[v]; !ok {
					st.seen[v] = zzsim.Seq()
				}
				st.mu.Unlock()
			}
			st.mu.Lock()
			st.closed[i] = true
			st.mu.Unlock()
		}(i)
	}
	env.S.Quiesce()
	if sibling != 0 {
		after := c.P("sibling_after", 0)
		go func() {
			for j := 0; j < after; j++ {
				zzsim.Yield("h.sibling-delay")
			}
			zzsim.SetNode("server")
			w.Svc.Remove(sibling)
			env.Probe("sibling-object-removed")
		}()
	}
	by := map[int][]core.Op{}
	var actors []int
	for _, op := range c.Ops {
		if _, ok := by[op.Actor]; !ok {
			actors = append(actors, op.Actor)
		}
		by[op.Actor] = append(by[op.Actor], op)
	}
	var wg sync.WaitGroup
	for _, a := range actors {
		wg.Add(1)
		go func(a int) {
			defer wg.Done()
			if a == 60 || a == 65 || a == 66 {
				zzsim.SetNode("server")
			}
			for _, op := range by[a] {
				p := proxies[a%len(proxies)]
				switch op.Kind {
				case "get":
					h := env.Invoke(a, "get", "")
					v, err := p.GetLevel()
					env.Return(h, strconv.Itoa(int(v)), err)
				case "rawget":
					h := env.Invoke(a, "rawget", "")
					val, err := p.Property(value.String("level"))
					out := ""
					if err == nil {
						out = val.Signature()
						if iv, ok := val.(value.IntValue); ok {
							out += ":" + strconv.Itoa(int(iv.Value()))
						} else if ov, ok := val.(*value.OpaqueValue); ok {
							_ = ov
							out += ":opaque"
						}
					}
					env.Return(h, out, err)
				case "set", "set-rejected":
					h := env.Invoke(a, op.Kind, strconv.Itoa(int(op.X)))
					err := p.SetLevel(int32(op.X))
					env.Return(h, "", err)
				case "set-by-id":
					h := env.Invoke(a, "set", strconv.Itoa(int(op.X)))
					err := p.SetProperty(value.Uint(PropLvl), value.Int(int32(op.X)))
					env.Return(h, "", err)
				case "set-wrong-type":
					var v value.Value
					n, _ := strconv.Atoi(op.S)
					switch op.X {
					case 0:
						v = value.Float(float32(n))
					case 1:
						v = value.String("x" + op.S)
					case 2:
						v = value.Long(int64(n))
					case 3:
						v = value.Uint(uint32(n))
					case 4:
						v = value.List([]value.Value{value.Int(int32(n))})
					case 5:
						// the declared type wrapped in a one-member tuple: the
						// same bytes as a well-typed write, another type
						v = value.Opaque("(i)", value.Bytes(value.Int(int32(n))))
					case 6:
						v = value.Opaque("(i)<Level,value>", value.Bytes(value.Int(int32(n))))
					default:
						v = value.Int16(int16(n))
					}
					var name value.Value = value.String("level")
					switch op.Y {
					case 1:
						name = value.Uint(PropLvl)
					case 2:
						// a well-typed value under a name of the wrong kind
						name, v = value.Int(int32(PropLvl)), value.Int(int32(n))
					case 3:
						// ... under a name no property has
						name, v = value.String("nope"), value.Int(int32(n))
					case 4:
						// ... under the id of a signal
						name, v = value.Uint(SigTick), value.Int(int32(n))
					}
					h := env.Invoke(a, "set-wrong-type", v.Signature()+":"+op.S)
					err := p.SetProperty(name, v)
					env.Return(h, "", err)
				case "churn-cancel":
					if int(op.X) < len(churnCancel) {
						for j := 0; j < int(op.Y); j++ {
							zzsim.Yield("h.churn-pause")
						}
						churnCancel[op.X]()
					}
				case "direct-set":
					if direct == nil {
						continue
					}
					h := env.Invoke(a, "set", strconv.Itoa(int(op.X)))
					err := direct.SetLevel(int32(op.X))
					env.Return(h, "", err)
				case "label":
					h := env.Invoke(a, "label", fmt.Sprintf("%d pad=%d", op.X, op.Y))
					err := targetImpl.Helper.UpdateLabel(c14label(int(op.X), int(op.Y)))
					env.Return(h, "", err)
					st.mu.Lock()
					st.labelsSent = append(st.labelsSent, int(op.X))
					st.mu.Unlock()
					env.Probe("large-values-of-another-property-published-meanwhile")
				case "gauge":
					h := env.Invoke(a, "gauge", strconv.Itoa(int(op.X)))
					err := targetImpl.Helper.UpdateGauge(int32(op.X))
					out := ""
					if err == nil {
						var v int32
						v, err = p.GetGauge()
						out = strconv.Itoa(int(v))
					}
					env.Return(h, out, err)
				case "update":
					h := env.Invoke(a, "update", strconv.Itoa(int(op.X)))
					err := targetImpl.Helper.UpdateLevel(int32(op.X))
					env.Return(h, "", err)
				}
			}
		}(a)
	}
	wg.Wait()
}

func (c14) Check(c *core.Case, env *core.Env, res zzsim.Result, v *core.Verdict) {
	st, _ := env.Get("st").(*c14state)
	if st == nil {
		return
	}
	bad := func(class, format string, args ...interface{}) {
		v.Violations = append(v.Violations, core.Violation{Class: "C14/" + class, Detail: fmt.Sprintf(format, args...)})
	}
	hs := env.History()
	pending := false
	accepted := []int32{}
	for _, h := range hs {
		if h.Ret == 0 {
			bad("hang/"+h.Kind, "operation never returned: %s", h)
			pending = true
			continue
		}
		v.OpsDone++
		switch h.Kind {
		case "set", "update":
			if h.OK || containsStr(h.Err, "victim-broken") {
				// (a write whose announcement could not reach one subscriber
				// is reported as such to the writer, and stands)
				n, _ := strconv.Atoi(h.Arg)
				accepted = append(accepted, int32(n))
			} else if !containsStr(h.Err, "consumer blocked") {
				// nothing is wrong with the connection and the validator
				// accepts the value: the write has no reason to fail
				bad("valid-write-refused", "a well-typed write the validator accepts failed on a healthy connection: %s", h)
			}
		case "gauge":
			// single writer: what it has just written is what it reads
			if !h.OK && !containsStr(h.Err, "victim-broken") && !containsStr(h.Err, "consumer blocked") {
				bad("other-property/failed", "writing and reading the object's second property failed: %s", h)
			} else if h.OK && h.Out != h.Arg {
				bad("other-property/reverted", "the object's second property was written %s by its only writer and read back %s at once", h.Arg, h.Out)
			}
		case "label":
			if !h.OK && !containsStr(h.Err, "victim-broken") {
				bad("other-property/failed", "publishing a value of the object's string property failed: %s", h)
			}
		case "set-rejected":
			if h.OK {
				bad("rejected-write-accepted", "a write the validator rejects was acknowledged: %s", h)
			}
		case "set-wrong-type":
			if h.OK {
				bad("wrong-type-write-accepted", "a write of another type was acknowledged: %s", h)
			}
		case "rawget":
			if h.OK && len(h.Out) > 0 && h.Out[0] != 'i' {
				bad("read-wrong-type", "a read returned a value of signature %q instead of the declared type i: %s", h.Out, h)
			}
		case "get":
			if !h.OK && c.Net.FaultGap == 0 {
				env.Probe("get-failed")
				if containsStr(h.Err, "unexpected signature") {
					bad("read-wrong-type", "a read returned a value of another type: %s", h)
				}
			}
		}
		if (h.Kind == "get" || h.Kind == "rawget") && !h.OK && c.Net.FaultGap == 0 && !containsStr(h.Err, "unexpected signature") {
			switch {
			case containsStr(h.Err, "property unknown") && c.P("unset_level", 0) == 1:
				// legal while nobody has written the property yet: judged
				// by the register model (PostCheck)
				env.Probe("read-of-unset-property")
			case containsStr(h.Err, "consumer blocked"):
			default:
				bad("read-failed", "a read failed on a healthy connection: %s", h)
			}
		}
	}
	if pending || !res.Quiescent {
		return
	}
	// the string property: every subscriber (subscribed before the first
	// value, for the whole run) receives the values published, each once,
	// in order and intact
	if c.P("labels", 0) == 1 && res.Quiescent {
		for i, got := range st.labels {
			if fmt.Sprint(got) != fmt.Sprint(st.labelsSent) && !(len(got) == 0 && len(st.labelsSent) == 0) {
				bad("other-property/events", "subscriber %d received the values %v of the object's string property (0: a value nobody published); the service published %v", i, got, st.labelsSent)
			}
		}
	}
	// change events: exactly one per accepted write, carrying the new value
	sort.Slice(accepted, func(i, j int) bool { return accepted[i] < accepted[j] })
	for i, evs := range st.events {
		got := append([]int32(nil), evs...)
		sort.Slice(got, func(a, b int) bool { return got[a] < got[b] })
		if fmt.Sprint(got) != fmt.Sprint(accepted) {
			seen := map[int32]int{}
			for _, x := range got {
				seen[x]++
			}
			acc := map[int32]bool{}
			for _, x := range accepted {
				acc[x] = true
			}
			class := "events/mismatch"
			for x, n := range seen {
				if !acc[x] {
					class = "events/for-unaccepted-value"
				} else if n > 1 {
					class = "events/duplicate"
				}
			}
			if class == "events/mismatch" {
				class = "events/missing"
			}
			bad(class, "subscriber %d received change events %v; accepted writes were %v", i, evs, accepted)
		}
		if st.closed[i] {
			bad("subscription-closed", "subscriber %d: channel closed during the run", i)
		}
	}
	ov := overlapping(hs)
	env.ProbeN("overlapping-op-pairs", ov)
	v.Nontrivial = ov > 0 && v.Stats.Switches > 0
}

// c14label is the n-th value of the string property: its number, then a
// padding of the given length; c14labelNo recovers the number of a value that
// is intact (0 otherwise).
// c14ownLink subscribes to the judged property the way a client does that
// numbers its links itself: a local handler for the events plus a
// registerEvent carrying the link. It then offers the same number for a
// signal of the same object; where the object takes it, that second link -
// and only it - is given up again at once. The subscription to the property
// was never cancelled: it is owed every event.
func c14ownLink(env *core.Env, cl bus.Client, p probe.ProbeProxy, service, object uint32, link uint64) (chan int32, error) {
	_, raw, err := cl.Subscribe(service, object, PropLvl)
	if err != nil {
		return nil, err
	}
	if _, err := p.RegisterEvent(object, PropLvl, link); err != nil {
		return nil, err
	}
	if _, err := p.RegisterEvent(object, SigTick, link); err == nil {
		if err := p.UnregisterEvent(object, SigTick, link); err != nil {
			return nil, err
		}
		env.Probe("one-link-number-for-two-signals-accepted")
	} else {
		env.Probe("one-link-number-for-two-signals-refused")
	}
	ch := make(chan int32)
	go func() {
		for b := range raw {
			if len(b) >= 4 {
				ch <- int32(uint32(b[0]) | uint32(b[1])<<8 | uint32(b[2])<<16 | uint32(b[3])<<24)
			}
		}
		close(ch)
	}()
	return ch, nil
}

func c14label(n, pad int) string {
	return fmt.Sprintf("%d|%d|", n, pad) + strings.Repeat("L", pad)
}

func c14labelNo(s string) int {
	var n, pad int
	if _, err := fmt.Sscanf(s, "%d|%d|", &n, &pad); err != nil || s != c14label(n, pad) {
		return 0
	}
	return n
}

func containsStr(s, sub string) bool {
	for i := 0; i+len(sub) <= len(s); i++ {
		if s[i:i+len(sub)] == sub {
			return true
		}
	}
	return false
}

// c14unset is the register's state before the first write when the object
// does not set its property at activation (written values are small).
const c14unset = int32(-1 << 31)

type c14in struct {
	kind string // get | set | bad
	v    int32
}

type c14out struct {
	ok bool
	v  int32
}

// PostCheck: linearizability against a typed register.
func (c14) PostCheck(c *core.Case, env *core.Env, v *core.Verdict) {
	for _, x := range v.Violations {
		if len(x.Class) > 8 && x.Class[:8] == "C14/hang" {
			return
		}
	}
	var ops []porcupine.Operation
	seenAt := map[int32]int64{}
	writes := map[int32]int{}
	if st, _ := env.Get("st").(*c14state); st != nil {
		st.mu.Lock()
		for k, t := range st.seen {
			seenAt[k] = t
		}
		st.mu.Unlock()
	}
	for _, h := range env.History() {
		if h.Kind == "set" || h.Kind == "update" {
			n, _ := strconv.Atoi(h.Arg)
			writes[int32(n)]++
		}
	}
	for _, h := range env.History() {
		if h.Ret == 0 {
			return
		}
		n, _ := strconv.Atoi(h.Arg)
		switch h.Kind {
		case "get":
			if !h.OK {
				if containsStr(h.Err, "property unknown") {
					ops = append(ops, porcupine.Operation{ClientId: h.Client, Input: c14in{"get-unset", 0}, Call: h.Call, Output: c14out{false, 0}, Return: h.Ret})
				}
				continue
			}
			val, _ := strconv.Atoi(h.Out)
			ops = append(ops, porcupine.Operation{ClientId: h.Client, Input: c14in{"get", 0}, Call: h.Call, Output: c14out{true, int32(val)}, Return: h.Ret})
		case "rawget":
			if !h.OK && containsStr(h.Err, "property unknown") {
				ops = append(ops, porcupine.Operation{ClientId: h.Client, Input: c14in{"get-unset", 0}, Call: h.Call, Output: c14out{false, 0}, Return: h.Ret})
			}
			if !h.OK || len(h.Out) < 3 || h.Out[:2] != "i:" {
				continue
			}
			val, _ := strconv.Atoi(h.Out[2:])
			ops = append(ops, porcupine.Operation{ClientId: h.Client, Input: c14in{"get", 0}, Call: h.Call, Output: c14out{true, int32(val)}, Return: h.Ret})
		case "set", "update":
			ret := h.Ret
			// a subscriber that holds the change event of a value knows the
			// write has taken effect: it cannot be ordered after that moment
			// (only for values written once: the event names its write)
			if t, ok := seenAt[int32(n)]; ok && writes[int32(n)] == 1 && t < ret && t > h.Call {
				ret = t
			}
			// (the writer of a write that could not be announced to one
			// unreachable subscriber is told so; the write stands)
			applied := h.OK || containsStr(h.Err, "victim-broken")
			ops = append(ops, porcupine.Operation{ClientId: h.Client, Input: c14in{"set", int32(n)}, Call: h.Call, Output: c14out{applied, 0}, Return: ret})
		case "set-rejected", "set-wrong-type":
			ops = append(ops, porcupine.Operation{ClientId: h.Client, Input: c14in{"bad", 0}, Call: h.Call, Output: c14out{h.OK, 0}, Return: h.Ret})
		}
	}
	unset := c.P("unset_level", 0) == 1
	model := porcupine.NondeterministicModel{
		Init: func() []interface{} {
			if unset {
				return []interface{}{c14unset}
			}
			return []interface{}{int32(0)}
		},
		Step: func(state, input, output interface{}) []interface{} {
			s := state.(int32)
			in := input.(c14in)
			out := output.(c14out)
			switch in.kind {
			case "get":
				if out.v == s && s != c14unset {
					return []interface{}{s}
				}
				return nil
			case "get-unset":
				// "property unknown": only before the first accepted write
				if s == c14unset {
					return []interface{}{s}
				}
				return nil
			case "set":
				if out.ok {
					return []interface{}{in.v}
				}
				// a refused valid write: it may or may not have been applied
				return []interface{}{s, in.v}
			default: // rejected or wrongly typed: never changes the state
				return []interface{}{s}
			}
		},
		Equal: func(a, b interface{}) bool { return a.(int32) == b.(int32) },
	}
	resLin := porcupine.CheckOperationsTimeout(model.ToModel(), ops, 20*time.Second)
	switch resLin {
	case porcupine.Illegal:
		var lines []string
		for _, h := range env.History() {
			lines = append(lines, h.String())
		}
		v.Violations = append(v.Violations, core.Violation{Class: "C14/not-linearizable", Detail: fmt.Sprintf("no sequential order of the operations explains the values read:\n%s", joinLines(lines))})
	case porcupine.Unknown:
		v.Inconclusive = "porcupine timeout"
	}
}

func joinLines(l []string) string {
	s := ""
	for _, x := range l {
		s += "  " + x + "\n"
	}
	return s
}
