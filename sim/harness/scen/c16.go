package scen

import (
	"fmt"
	"math/rand/v2"
	"strings"
	"sync"

	"github.com/lugu/qiloop/bus"
	probe "github.com/lugu/qiloop/zzprobe"

	"qsimharness/core"
	"zzsim"
)

// C16: removed objects are unreachable and terminated exactly once; ids are
// unique among live objects; remaining subscribers are told; removing one
// object never affects the others.
type c16 struct{}

func init() { core.Register("C16", func() core.Scenario { return c16{} }) }

func (c16) Gen(r *rand.Rand, tier string, run int) *core.Case {
	c := &core.Case{Prop: "C16", Params: map[string]int{}}
	c.Sim = baseSim(r, []string{"bus/service.go", "bus/object.go", "bus/signal.go"})
	c.Net = baseNet(r)
	if c.Net.ReadMode == "tiny" {
		c.Net.ReadMode = "random"
	}
	if r.IntN(5) == 0 {
		c16genClientSide(c, r)
		return c
	}
	// the identifiers of new objects are drawn at random: in some runs the
	// first draws of an Add meet the identifier of the service's first object
	// (which nobody removes in these runs)
	c.Params["add_collides"] = []int{0, 0, 1, 2, 3}[r.IntN(5)]
	if r.IntN(6) == 0 {
		c.Params["svc_terminate"] = 1
	}
	objs := 2 + r.IntN(3)
	c.Params["objects"] = objs
	c.Params["conns"] = 1 + r.IntN(3)
	c.Params["subscribe"] = r.IntN(4) // subscribers per object before the race
	actors := 2 + r.IntN(3)
	if r.IntN(3) == 0 {
		// registrations arriving in a burst while the object is being removed
		c.Batch = "subscribe-storm"
		c.Params["conns"] = 3
		c.Params["subscribe"] = 2 + r.IntN(2)
		target := int64(1 + r.IntN(objs))
		for a := 0; a < 2; a++ {
			for i := 0; i < 2+r.IntN(3); i++ {
				c.Ops = append(c.Ops, core.Op{Kind: "subscribe", Actor: 20 + a, X: target, Y: int64(r.IntN(9))})
			}
		}
		c.Ops = append(c.Ops, core.Op{Kind: "call", Actor: 22, X: target}, core.Op{Kind: []string{"remove", "terminate"}[r.IntN(2)], Actor: 22, X: target, Y: int64(r.IntN(3))})
		actors = 1 + r.IntN(2)
	}
	c.Params["slow_ms"] = r.IntN(4)
	c.Params["instrument"] = []int{0, 0, 0, 1, 2, 3}[r.IntN(6)]
	if r.IntN(4) == 0 {
		c.Params["broken"] = 1
		c.Params["break_after"] = r.IntN(60)
	}
	if c.Batch == "" && r.IntN(6) == 0 {
		// an implementation value lives twice: removed one way, added again,
		// called, removed again (the same or another way), called
		c.Batch = "second-life"
		x := int64(1 + r.IntN(objs))
		ways := []string{"remove", "terminate", "terminate", "self"}
		c.Ops = append(c.Ops,
			core.Op{Kind: ways[r.IntN(4)], Actor: 40, X: x, Y: int64(r.IntN(3))},
			core.Op{Kind: "readd", Actor: 40, X: x},
			core.Op{Kind: "call", Actor: 40, X: -1},
			core.Op{Kind: ways[r.IntN(4)], Actor: 40, X: -1, Y: int64(r.IntN(3))},
			core.Op{Kind: "call", Actor: 40, X: -1})
		actors = r.IntN(3)
	}
	if c.Batch == "" && r.IntN(8) == 0 {
		// the service's first object goes like any other; the service lives
		// on with the others and gets new objects
		c.Batch = "first-object-gone"
		c.Params["first_gone"] = 1
		c.Ops = append(c.Ops, core.Op{Kind: []string{"remove", "terminate", "self"}[r.IntN(3)], Actor: 50, X: 0, Y: int64(r.IntN(3))})
		for i := 0; i < 2+r.IntN(2); i++ {
			c.Ops = append(c.Ops, core.Op{Kind: "add", Actor: 50}, core.Op{Kind: "call", Actor: 50, X: -1})
		}
	}
	if c.Batch == "" && r.IntN(4) == 0 {
		c.Batch = "burst"
		c.Params["conns"] = 2 + r.IntN(2)
		c.Ops = append(c.Ops, core.Op{Kind: "burst", Actor: 30, X: int64(1 + r.IntN(objs)), Y: int64(12 + r.IntN(8)), S: []string{"", "terminate", "terminate"}[r.IntN(3)]})
	}
	for a := 0; a < actors; a++ {
		n := 1 + r.IntN(4)
		for i := 0; i < n; i++ {
			var op core.Op
			switch x := r.IntN(10); {
			case x < 3:
				op = core.Op{Kind: "call", X: int64(r.IntN(objs + 1 + 4*r.IntN(2)))}
			case x < 4:
				op = core.Op{Kind: []string{"subscribe", "subscribe", "subscribe", "unsubscribe"}[r.IntN(4)], X: int64(1 + r.IntN(objs))}
			case x < 6:
				op = core.Op{Kind: []string{"remove", "remove", "self"}[r.IntN(3)], X: int64(1 + r.IntN(objs+4*r.IntN(2)))}
			case x < 8:
				op = core.Op{Kind: "terminate", X: int64(1 + r.IntN(objs+4*r.IntN(2)))}
			default:
				op = core.Op{Kind: []string{"add", "add-family", "readd", "add-early", "add-doomed", "add-direct", "add-failing"}[r.IntN(7)], X: int64(1 + r.IntN(objs))}
			}
			op.Actor = a
			op.Y = int64(r.IntN(2))
			if op.Kind == "add-early" || op.Kind == "add-doomed" {
				op.Y = int64([]int{0, 1, 3, 10, 40}[r.IntN(5)])
			}
			c.Ops = append(c.Ops, op)
		}
	}
	return c
}

type c16obj struct {
	// direct: the in-process proxy the generated Create<Itf> helper returned
	// to whoever created the object (nil for objects added with Service.Add)
	direct probe.ProbeProxy
	// an implementation value may live several lives (added again after
	// its removal): each life is a record of its own
	execSlot   int // what the implementation writes into the execution log
	actor      bus.Actor
	termBase   int  // termination hooks that ran in earlier lives
	frozen     bool // a later life began: termAt is this life's final count
	termAt     int
	readded    bool
	removing   int // removal operations in progress
	slot       int
	id         uint32
	impl       *ProbeImpl
	addRet     int64
	removeRets []int64 // return of successful Remove / terminate
	removeCall int64   // first invocation of a removal
	subs       []*c16sub
	used       map[int]bool
	proxies    []probe.ProbeProxy
}

type c16sub struct {
	ackRet int64 // SubscribeTick returned (acknowledged)
	closed bool
	cancel func()
	// cancelled: the subscriber left of its own accord (it is owed nothing
	// afterwards; the others of its connection are)
	cancelled bool
}

type c16state struct {
	mu   sync.Mutex
	objs []*c16obj
	w    *World
	cs   *c16cs // the client-side sub-batch
	// requests for an object that is called while it is being activated, by
	// the actor that adds it
	early map[int]*c16early
}

type c16early struct {
	yields  int
	seq     int
	called  chan struct{}
	started bool
	// doom: the object terminates itself from within its activation
	doom bool
}

func (c16) Run(c *core.Case, env *core.Env) {
	st := &c16state{}
	env.Set("st", st)
	if c.P("clientside", 0) == 1 {
		c16clientSide(c, env, st)
		return
	}
	w, err := StartServer(env, bus.Dictionary(map[string]string{"u": "p"}), 1)
	if err != nil {
		env.Violate("harness/setup", "%v", err)
		return
	}
	st.w = w
	nConn := c.P("conns", 1)
	var clients []bus.Client
	for i := 0; i < nConn; i++ {
		cl, err := Connect(fmt.Sprintf("client%d", i), "u", "p")
		if err != nil {
			env.Violate("setup/connect", "%v", err)
			return
		}
		clients = append(clients, cl)
	}
	meta, err := bus.GetMetaObject(clients[0], w.ServiceID, w.ObjIDs[0])
	if err != nil {
		env.Violate("setup/meta", "%v", err)
		return
	}
	var earlyN int
	var add func(a int, prev *c16obj) *c16obj
	// addEarly adds an object whose activation gives its identifier away and
	// takes its time: a client calls the object while it is being activated.
	// The call may succeed or fail; it has one outcome.
	addEarly := func(a int, yields int, doom bool) {
		st.mu.Lock()
		earlyN++
		req := &c16early{yields: yields, called: make(chan struct{}), seq: earlyN, doom: doom}
		if st.early == nil {
			st.early = map[int]*c16early{}
		}
		st.early[a] = req
		st.mu.Unlock()
		if add(a, nil) == nil {
			// Add failed: the activation may not have run
			st.mu.Lock()
			started := req.started
			st.mu.Unlock()
			if !started {
				return
			}
		}
		if !doom {
			<-req.called
		}
	}
	add = func(a int, prev *c16obj) *c16obj {
		h := env.Invoke(a, "add", "")
		zzsim.SetNode("server")
		var impl *ProbeImpl
		var actor bus.Actor
		st.mu.Lock()
		o := &c16obj{slot: len(st.objs)}
		var early func(bus.Activation)
		doomed := false
		if req := st.early[a]; req != nil && prev == nil {
			delete(st.early, a)
			called, yields, seq := req.called, req.yields, req.seq
			slot := o.slot
			doomed = req.doom
			early = func(act bus.Activation) {
				st.mu.Lock()
				req.started = true
				st.mu.Unlock()
				if req.doom {
					for k := 0; k < yields; k++ {
						zzsim.Yield("h.activate")
					}
					zzsim.Event("object of slot %d terminates itself during its activation", slot)
					act.Terminate()
					return
				}
				go func() {
					defer close(called)
					zzsim.SetNode("harness")
					cl := clients[(a+seq)%len(clients)]
					p := probe.MakeProbe(nil, bus.NewProxy(cl, meta, w.ServiceID, act.ObjectID))
					tok := probe.Token{Client: int32(a), Seq: int32(1000 + seq), Nonce: int64(slot), Text: "t"}
					eh := env.Invoke(a+300, "early-call", fmt.Sprintf("%s@slot%d", tokOf(tok).Key(), slot))
					ret, err := p.Echo(tok)
					env.Return(eh, tokOf(ret).String(), err)
				}()
				for k := 0; k < yields; k++ {
					zzsim.Yield("h.activate")
				}
			}
		}
		if prev != nil {
			// the same implementation value, added again after its removal
			impl, actor = prev.impl, prev.actor
			prev.frozen, prev.termAt = true, impl.Terminated()
			o.termBase = prev.termAt
			o.execSlot = prev.execSlot
		} else {
			impl = &ProbeImpl{Env: env, SlowMs: c.P("slow_ms", 0), OnActivate: early}
			impl.Obj = o.slot
			actor = probe.ProbeObject(impl)
			o.execSlot = o.slot
		}
		o.impl, o.actor = impl, actor
		st.objs = append(st.objs, o)
		st.mu.Unlock()
		if n := c.P("add_collides", 0); n > 0 && c.P("first_gone", 0) == 0 && o.slot%2 == 0 {
			for k := 0; k < n; k++ {
				zzsim.AuxForce(uint64(w.ObjIDs[0]))
			}
			env.Probe("identifier-draws-meeting-a-live-object")
		}
		id, err := w.Svc.Add(actor)
		zzsim.SetNode("harness")
		env.Return(h, fmt.Sprintf("slot%d id=%d", o.slot, id), err)
		if err != nil {
			return nil
		}
		st.mu.Lock()
		o.id = id
		o.addRet = h.Ret
		if doomed {
			// it terminated itself before Add returned
			o.removeCall = h.Call
			o.removeRets = append(o.removeRets, h.Ret)
		}
		st.mu.Unlock()
		for _, cl := range clients {
			if doomed {
				// (nobody can ask it for its meta object any more)
				st.mu.Lock()
				o.proxies = append(o.proxies, probe.MakeProbe(nil, bus.NewProxy(cl, meta, w.ServiceID, id)))
				st.mu.Unlock()
				continue
			}
			p, err := ProbeProxy(cl, w.ServiceID, id)
			if err != nil {
				// the object may have been removed meanwhile
				continue
			}
			st.mu.Lock()
			o.proxies = append(o.proxies, p)
			st.mu.Unlock()
		}
		return o
	}
	subscribe := func(a int, o *c16obj, which int) {
		if len(o.proxies) == 0 {
			return
		}
		// one subscriber per (connection, signal) of an object: each one then
		// owns a registration of its own (shared registrations have their own
		// property, C13, and their own known findings)
		st.mu.Lock()
		if o.used == nil {
			o.used = map[int]bool{}
		}
		k := which % (3 * len(o.proxies))
		if o.used[k] {
			st.mu.Unlock()
			return
		}
		o.used[k] = true
		st.mu.Unlock()
		h := env.Invoke(a, "subscribe", fmt.Sprintf("slot%d sig%d", o.slot, which/len(o.proxies)%3))
		p := o.proxies[which%len(o.proxies)]
		var ch chan int32
		var err error
		var cancel func()
		switch which / len(o.proxies) % 3 {
		case 0:
			cancel, ch, err = p.SubscribeTick()
		case 1:
			cancel, ch, err = p.SubscribeTock()
		default:
			cancel, ch, err = p.SubscribeLevel()
		}
		env.Return(h, "", err)
		if err != nil {
			return
		}
		sub := &c16sub{ackRet: h.Ret, cancel: cancel}
		st.mu.Lock()
		o.subs = append(o.subs, sub)
		st.mu.Unlock()
		go func() {
			for range ch {
			}
			st.mu.Lock()
			sub.closed = true
			st.mu.Unlock()
		}()
	}
	// slot 0 is the service's own object: never removed
	st.objs = append(st.objs, &c16obj{slot: 0, execSlot: 0, id: 1, impl: w.Impls[0], addRet: 1})
	for _, cl := range clients {
		p, err := ProbeProxy(cl, w.ServiceID, 1)
		if err != nil {
			env.Violate("setup/proxy", "%v", err)
			return
		}
		st.objs[0].proxies = append(st.objs[0].proxies, p)
	}
	var victim bus.Client
	vpair := 0
	if c.P("broken", 0) == 1 {
		// a subscriber of every object, registered first, that becomes
		// unreachable during the race: what the other subscribers are told
		// must not depend on it
		vpair = len(env.NW.Conns())
		if victim, err = Connect("victim", "u", "p"); err != nil {
			env.Violate("setup/connect", "%v", err)
			return
		}
	}
	for i := 0; i < c.P("objects", 2); i++ {
		o := add(90, nil)
		if o == nil {
			env.Violate("setup/add", "adding an object failed")
			return
		}
		if k := c.P("instrument", 0); k > 0 && len(o.proxies) > 0 {
			// statistics / tracing switched on before anybody subscribes
			if k&1 != 0 {
				o.proxies[0].EnableStats(true)
			}
			if k&2 != 0 {
				o.proxies[0].EnableTrace(true)
			}
			env.Probe("object-instrumented")
		}
		if victim != nil {
			vp, err := ProbeProxy(victim, w.ServiceID, o.id)
			if err != nil {
				env.Violate("setup/proxy", "%v", err)
				return
			}
			_, v1, e1 := vp.SubscribeTick()
			_, v2, e2 := vp.SubscribeTock()
			if e1 != nil || e2 != nil {
				env.Violate("setup/subscribe", "%v %v", e1, e2)
				return
			}
			go func() {
				for range v1 {
				}
			}()
			go func() {
				for range v2 {
				}
			}()
		}
		for k := 0; k < c.P("subscribe", 0); k++ {
			subscribe(90, o, k)
		}
	}
	env.S.Quiesce()
	if victim != nil {
		BreakWritesLater(env, env.NW.Conns()[vpair], c.P("break_after", 0))
	}
	by := map[int][]core.Op{}
	var actors []int
	for _, op := range c.Ops {
		if _, ok := by[op.Actor]; !ok {
			actors = append(actors, op.Actor)
		}
		by[op.Actor] = append(by[op.Actor], op)
	}
	pick := func(x int64) *c16obj {
		st.mu.Lock()
		defer st.mu.Unlock()
		if x < 0 {
			// the object added last among those whose Add has returned
			for i := len(st.objs) - 1; i > 0; i-- {
				if st.objs[i].addRet != 0 {
					return st.objs[i]
				}
			}
			return st.objs[0]
		}
		return st.objs[int(x)%len(st.objs)]
	}
	var lifeMu sync.Mutex // a new life of an implementation value / its self-termination
	removal := func(a int, kind string, o *c16obj, y int) {
		st.mu.Lock()
		added := o.addRet != 0
		st.mu.Unlock()
		if (o.slot == 0 && c.P("first_gone", 0) == 0) || !added {
			return
		}
		if kind == "self" {
			// the implementation's activation belongs to its latest life:
			// no new life may begin between this test and the call
			lifeMu.Lock()
			defer lifeMu.Unlock()
			st.mu.Lock()
			stale := o.readded
			st.mu.Unlock()
			if stale {
				return
			}
		}
		h := env.Invoke(a, kind, fmt.Sprintf("slot%d id=%d", o.slot, o.id))
		st.mu.Lock()
		if o.removeCall == 0 {
			o.removeCall = h.Call
		}
		o.removing++
		st.mu.Unlock()
		defer func() {
			st.mu.Lock()
			o.removing--
			st.mu.Unlock()
		}()
		var err error
		if kind == "remove" {
			zzsim.SetNode("server")
			err = w.Svc.Remove(o.id)
			zzsim.SetNode("harness")
		} else if kind == "self" {
			// the object terminates itself through its activation
			zzsim.SetNode("server")
			if o.impl.Act.Terminate != nil {
				o.impl.Act.Terminate()
			} else {
				err = fmt.Errorf("no terminator")
			}
			zzsim.SetNode("harness")
		} else if len(o.proxies) > 0 {
			err = o.proxies[y%len(o.proxies)].Terminate(o.id)
		} else {
			err = fmt.Errorf("no proxy")
		}
		env.Return(h, "", err)
		if err == nil {
			st.mu.Lock()
			o.removeRets = append(o.removeRets, h.Ret)
			st.mu.Unlock()
		}
	}
	var wg sync.WaitGroup
	for _, a := range actors {
		wg.Add(1)
		go func(a int) {
			defer wg.Done()
			for i, op := range by[a] {
				switch op.Kind {
				case "add":
					add(a, nil)
				case "add-direct":
					// created with the generated helper: the creator keeps an
					// in-process proxy, used before and after the removal
					h := env.Invoke(a, "add", "")
					zzsim.SetNode("server")
					st.mu.Lock()
					o := &c16obj{slot: len(st.objs)}
					impl := &ProbeImpl{Env: env, SlowMs: c.P("slow_ms", 0), Obj: o.slot}
					o.impl, o.execSlot = impl, o.slot
					st.objs = append(st.objs, o)
					st.mu.Unlock()
					dp, err := probe.CreateProbe(nil, w.Svc, impl)
					zzsim.SetNode("harness")
					if err != nil {
						env.Return(h, "", err)
						continue
					}
					env.Return(h, fmt.Sprintf("slot%d id=%d", o.slot, dp.Proxy().ObjectID()), nil)
					st.mu.Lock()
					o.id, o.addRet, o.direct = dp.Proxy().ObjectID(), h.Ret, dp
					st.mu.Unlock()
					for _, cl := range clients {
						if p, err := ProbeProxy(cl, w.ServiceID, o.id); err == nil {
							st.mu.Lock()
							o.proxies = append(o.proxies, p)
							st.mu.Unlock()
						}
					}
					c16direct(env, a, i, o)
					env.Probe("objects-created-with-the-generated-helper")
				case "add-failing":
					// an object that cannot start: its activation reports an
					// error. Add fails; the identifier it drew is nobody's:
					// the application may tidy up with Remove, clients may
					// call it, both are told that there is no such object
					h := env.Invoke(a, "add-failing", "")
					zzsim.SetNode("server")
					fimpl := &ProbeImpl{Env: env, Obj: 900 + 10*a + i, ActivateErr: fmt.Errorf("this object cannot start")}
					fid, err := w.Svc.Add(probe.ProbeObject(fimpl))
					env.Return(h, fmt.Sprintf("id=%d", fid), err)
					if err != nil && op.Y%2 == 0 {
						h2 := env.Invoke(a, "remove-after-failed-add", fmt.Sprintf("id=%d", fid))
						err := w.Svc.Remove(fid)
						env.Return(h2, "", err)
					}
					zzsim.SetNode("harness")
					if err != nil {
						fp := probe.MakeProbe(nil, bus.NewProxy(clients[a%len(clients)], meta, w.ServiceID, fid))
						tok := probe.Token{Client: int32(a), Seq: int32(2000 + i), Nonce: int64(fid), Text: "t"}
						h3 := env.Invoke(a, "call-after-failed-add", fmt.Sprintf("%s obj%d", tokOf(tok).Key(), fimpl.Obj))
						ret, err := fp.Echo(tok)
						env.Return(h3, tokOf(ret).String(), err)
					}
					env.Probe("objects-whose-activation-fails")
				case "add-early":
					addEarly(a, int(op.Y), false)
					env.Probe("objects-called-while-being-activated")
				case "add-doomed":
					addEarly(a, int(op.Y), true)
					env.Probe("objects-terminating-themselves-during-activation")
				case "add-family":
					// a parent whose termination hook removes its child from
					// the same service
					child := add(a, nil)
					parent := add(a, nil)
					if child != nil && parent != nil {
						parent.impl.mu.Lock()
						parent.impl.OnTerm = func() { removal(a, "remove", child, 0) }
						parent.impl.mu.Unlock()
						env.Probe("families")
					}
				case "readd":
					prev := pick(op.X)
					st.mu.Lock()
					// only once its removal is over (nobody adds an object
					// again while its termination hook may still be running)
					ok := prev.slot != 0 && len(prev.removeRets) > 0 && prev.removing == 0 && !prev.readded
					if ok {
						prev.readded = true
					}
					st.mu.Unlock()
					if ok {
						lifeMu.Lock()
						add(a, prev)
						lifeMu.Unlock()
						env.Probe("implementations-added-again")
					}
				case "call":
					o := pick(op.X)
					c16call(env, a, i, o, int(op.Y))
				case "subscribe":
					subscribe(a, pick(op.X), int(op.Y))
				case "unsubscribe":
					// one subscriber of the object leaves of its own accord
					o := pick(op.X)
					var leaving *c16sub
					st.mu.Lock()
					for _, sub := range o.subs {
						if !sub.cancelled && sub.cancel != nil {
							leaving = sub
							sub.cancelled = true
							break
						}
					}
					st.mu.Unlock()
					if leaving != nil {
						h := env.Invoke(a, "unsubscribe", fmt.Sprintf("slot%d", o.slot))
						leaving.cancel()
						env.Return(h, "", nil)
						env.Probe("subscribers-leaving-of-their-own-accord")
					}
				case "remove", "terminate", "self":
					removal(a, op.Kind, pick(op.X), int(op.Y))
				case "burst":
					// more calls in flight on one object than its mailbox holds
					// (the method takes simulated time), from every connection,
					// and sometimes its termination among them
					o := pick(op.X)
					var bw sync.WaitGroup
					for k := 0; k < int(op.Y); k++ {
						bw.Add(1)
						go func(k int) {
							defer bw.Done()
							if op.S == "terminate" && k == 2 {
								removal(a, "terminate", o, k)
								return
							}
							c16slow(env, a, i*100+k, o, k)
						}(k)
					}
					bw.Wait()
					env.Probe("bursts")
				}
			}
		}(a)
	}
	wg.Wait()
	env.S.Quiesce()
	if c.P("svc_terminate", 0) == 1 {
		// the whole service is terminated: every object that is still there
		// goes with it (hook once, unreachable afterwards), and whoever
		// removes one of them afterwards finds it gone
		h := env.Invoke(96, "service-terminate", "")
		zzsim.SetNode("server")
		err := w.Svc.Terminate()
		zzsim.SetNode("harness")
		env.Return(h, "", err)
		st.mu.Lock()
		var live []*c16obj
		for _, o := range st.objs {
			if o.addRet != 0 && len(o.removeRets) == 0 && !o.readded {
				if o.removeCall == 0 {
					o.removeCall = h.Call
				}
				o.removeRets = append(o.removeRets, h.Ret)
				live = append(live, o)
			}
		}
		st.mu.Unlock()
		env.Probe("services-terminated")
		for _, o := range live {
			h := env.Invoke(96, "remove-after-service-terminate", fmt.Sprintf("slot%d", o.slot))
			zzsim.SetNode("server")
			err := w.Svc.Remove(o.id)
			zzsim.SetNode("harness")
			env.Return(h, "", err)
		}
		env.S.Quiesce()
	}
	// afterwards: every object is called once more
	st.mu.Lock()
	all := append([]*c16obj(nil), st.objs...)
	st.mu.Unlock()
	for _, o := range all {
		c16call(env, 95, o.slot, o, 0)
		if o.direct != nil {
			c16direct(env, 95, 500+o.slot, o)
		}
	}
}

// c16direct calls the object through the in-process proxy of its creator.
func c16direct(env *core.Env, a, i int, o *c16obj) {
	tok := probe.Token{Client: int32(a), Seq: int32(i), Nonce: int64(o.slot), Text: "t"}
	h := env.Invoke(a, "direct-call", fmt.Sprintf("%s@slot%d", tokOf(tok).Key(), o.slot))
	zzsim.SetNode("server")
	ret, err := o.direct.Echo(tok)
	zzsim.SetNode("harness")
	env.Return(h, tokOf(ret).String(), err)
}

func c16call(env *core.Env, a, i int, o *c16obj, which int) {
	if len(o.proxies) == 0 {
		return
	}
	tok := probe.Token{Client: int32(a), Seq: int32(i), Nonce: int64(o.slot), Text: "t"}
	h := env.Invoke(a, "call", fmt.Sprintf("%s@slot%d", tokOf(tok).Key(), o.slot))
	ret, err := o.proxies[which%len(o.proxies)].Echo(tok)
	env.Return(h, tokOf(ret).String(), err)
}

func c16slow(env *core.Env, a, i int, o *c16obj, which int) {
	if len(o.proxies) == 0 {
		return
	}
	tok := probe.Token{Client: int32(a), Seq: int32(i), Nonce: int64(o.slot), Text: "t"}
	h := env.Invoke(a, "call", fmt.Sprintf("%s@slot%d", tokOf(tok).Key(), o.slot))
	ret, err := o.proxies[which%len(o.proxies)].Slow(tok)
	env.Return(h, tokOf(ret).String(), err)
}

func (c16) Check(c *core.Case, env *core.Env, res zzsim.Result, v *core.Verdict) {
	st, _ := env.Get("st").(*c16state)
	if st == nil || st.w == nil {
		return
	}
	if st.cs != nil {
		c16checkClientSide(c, env, res, v, st.cs)
		return
	}
	bad := func(class, format string, args ...interface{}) {
		v.Violations = append(v.Violations, core.Violation{Class: "C16/" + class, Detail: fmt.Sprintf(format, args...)})
	}
	hs := env.History()
	pending := false
	for _, h := range hs {
		if h.Ret == 0 {
			bad("hang/"+h.Kind, "operation never returned: %s", h)
			pending = true
		} else {
			v.OpsDone++
		}
	}
	if pending || !res.Quiescent {
		return
	}
	const inf = int64(1) << 62
	execs := env.Execs()
	// an object whose activation failed was never added: nobody reaches it
	for _, h := range hs {
		switch h.Kind {
		case "call-after-failed-add":
			if h.OK {
				bad("failed-add/call-succeeded", "the activation of the object failed and Add said so, yet a call to the identifier it drew succeeded: %s", h)
			}
			var key string
			var obj int
			fmt.Sscanf(h.Arg, "%s obj%d", &key, &obj)
			for _, e := range execs {
				if e.Obj == obj && e.Method != "OnTerminate" {
					bad("failed-add/object-invoked", "the object whose activation failed ran %s", e.Method)
				}
			}
		case "remove-after-failed-add":
			env.Probe("remove-after-a-failed-add")
		}
	}
	// identifiers unique among live objects
	for i, a := range st.objs {
		for _, b := range st.objs[i+1:] {
			if a.addRet == 0 || b.addRet == 0 || a.id != b.id {
				continue
			}
			endA, endB := inf, inf
			if a.removeCall != 0 {
				endA = a.removeCall
			}
			if b.removeCall != 0 {
				endB = b.removeCall
			}
			if a.addRet < endB && b.addRet < endA {
				bad("id-not-unique", "objects in slots %d and %d both got id %d while live", a.slot, b.slot, a.id)
			}
		}
	}
	for _, o := range st.objs {
		if o.addRet == 0 {
			continue
		}
		name := fmt.Sprintf("object slot %d (id %d)", o.slot, o.id)
		terms := o.impl.Terminated()
		if o.frozen {
			terms = o.termAt
		}
		terms -= o.termBase
		if terms > 1 {
			bad("terminated-twice", "%s: termination hook ran %d times", name, terms)
		}
		if len(o.removeRets) > 0 && terms == 0 {
			bad("not-terminated", "%s was removed but its termination hook never ran", name)
		}
		if len(o.removeRets) == 0 && terms > 0 && o.removeCall == 0 {
			bad("terminated-spuriously", "%s: termination hook ran although nobody removed the object", name)
		}
		if o.removeCall == 0 {
			// nobody ever asked to remove this object: its subscribers must
			// not have been told anything, whatever happened to the others
			for i, sub := range o.subs {
				if sub.closed && !sub.cancelled {
					bad("subscriber-of-a-live-object-told", "%s was never removed but the channel of its subscriber %d was closed", name, i)
				}
			}
		}
		if len(o.removeRets) > 0 {
			// subscribers acknowledged before anybody asked for the removal
			for i, sub := range o.subs {
				if sub.ackRet < o.removeCall && !sub.closed {
					bad("subscriber-not-told", "%s was removed but subscriber %d (acknowledged at %d, removal requested at %d) was not told: its channel is still open", name, i, sub.ackRet, o.removeCall)
				}
				if sub.ackRet < o.removeCall {
					env.Probe("subscribers-of-removed-objects")
				}
			}
		}
		// calls invoked after the removal returned
		firstRemoved := inf
		for _, r := range o.removeRets {
			if r < firstRemoved {
				firstRemoved = r
			}
		}
		for _, h := range hs {
			if h.Kind != "call" || !strings.HasSuffix(h.Arg, fmt.Sprintf("@slot%d", o.slot)) {
				continue
			}
			key, _, _ := strings.Cut(h.Arg, "@")
			ran := 0
			for _, e := range execs {
				if e.Key == key && (e.Method == "echo" || e.Method == "slow") {
					ran++
					if e.Obj != o.execSlot {
						bad("wrong-object", "%s: call %s ran on object slot %d", name, h, e.Obj)
					}
				}
			}
			if h.Call > firstRemoved {
				if h.OK {
					bad("call-after-removal-succeeded", "%s was removed (removal returned at %d) but a later call succeeded: %s", name, firstRemoved, h)
				}
				if ran > 0 {
					bad("call-after-removal-executed", "%s was removed (removal returned at %d) but a later call reached the object: %s", name, firstRemoved, h)
				}
			} else if o.removeCall == 0 || h.Ret < o.removeCall {
				// the object was live during the whole call
				if !h.OK && ran == 0 && strings.Contains(h.Out+h.Err, "message dropped: consumer blocked") {
					// the endpoint sheds load when the queue of the
					// connection's consumer is full and says so to the
					// caller (bus/net ErrConsumerBlocked): the object was
					// not reached, which is not a statement about the object
					env.Probe("calls-shed-by-full-queue")
				} else if !h.OK {
					bad("live-object-refused", "%s is live but a call to it failed: %s", name, h)
				} else if ran != 1 {
					bad("live-object-exec-count", "%s: call %s ran %d times", name, h, ran)
				}
			}
			if h.OK && !strings.HasPrefix(h.Out, key+":") {
				bad("wrong-reply", "%s: %s returned %q", name, h, h.Out)
			}
		}
		// calls through the creator's in-process proxy: same rules
		for _, h := range hs {
			if h.Kind != "direct-call" || !strings.HasSuffix(h.Arg, fmt.Sprintf("@slot%d", o.slot)) || h.Ret == 0 {
				continue
			}
			key, _, _ := strings.Cut(h.Arg, "@")
			ran := 0
			for _, e := range execs {
				if e.Key == key {
					ran++
				}
			}
			if h.Call > firstRemoved {
				if h.OK || ran > 0 {
					bad("direct-proxy/call-after-removal-reached-the-object", "%s was removed (removal returned at %d) but a later call through the in-process proxy of its creator reached it: %s (ran %d times)", name, firstRemoved, h, ran)
				}
			} else if (o.removeCall == 0 || h.Ret < o.removeCall) && (!h.OK || ran != 1) {
				bad("direct-proxy/live-object-refused", "%s is live but a call through the in-process proxy of its creator failed or ran %d times: %s", name, ran, h)
			}
		}
		// the call made while the object was being activated: one outcome (the
		// hang rule above), its own, from at most one execution on this object
		for _, h := range hs {
			if h.Kind != "early-call" || !strings.HasSuffix(h.Arg, fmt.Sprintf("@slot%d", o.slot)) || h.Ret == 0 {
				continue
			}
			key, _, _ := strings.Cut(h.Arg, "@")
			ran := 0
			for _, e := range execs {
				if e.Key == key {
					ran++
					if e.Obj != o.execSlot {
						bad("wrong-object", "%s: call %s ran on object slot %d", name, h, e.Obj)
					}
				}
			}
			if h.OK && (ran != 1 || !strings.HasPrefix(h.Out, key+":")) {
				bad("early-call/wrong-outcome", "%s: %s succeeded with %q after %d executions", name, h, h.Out, ran)
			} else if ran > 1 {
				bad("early-call/ran-twice", "%s: %s ran %d times", name, h, ran)
			}
			if h.OK {
				env.Probe("early-call-answered-by-the-object")
			} else {
				env.Probe("early-call-refused")
			}
		}
		for _, h := range hs {
			if h.Kind == "subscribe" && strings.HasPrefix(h.Arg, fmt.Sprintf("slot%d ", o.slot)) && !h.OK &&
				(o.removeCall == 0 || h.Ret < o.removeCall) && !strings.Contains(h.Err, "consumer blocked") {
				bad("live-object-refused", "%s is live but a subscription to it failed: %s", name, h)
			}
		}
		if len(o.removeRets) > 0 {
			env.Probe("objects-removed")
		}
		if len(o.removeRets) > 1 {
			env.Probe("removed-twice-successfully")
		}
	}
	ov := overlapping(hs)
	env.ProbeN("overlapping-op-pairs", ov)
	v.Nontrivial = ov > 0 && v.Stats.Switches > 0
}
