package scen

import (
	"bytes"
	"fmt"
	"math/rand/v2"
	"sync"
	"time"

	"github.com/lugu/qiloop/bus/net"

	"qsimharness/core"
	"qsimharness/ref"
	"zzsim"
	"zzsim/simnet"
)

// C10: concurrent senders never corrupt the stream; each message arrives
// once, per-sender order is kept; every handler gets exactly the subsequence
// its filter selects, in arrival order, as long as its queue has room.
type c10 struct{}

func init() { core.Register("C10", func() core.Scenario { return c10{} }) }

func (c10) Gen(r *rand.Rand, tier string, run int) *core.Case {
	c := &core.Case{Prop: "C10", Params: map[string]int{}}
	c.Sim = baseSim(r, []string{"bus/net/endpoint.go", "bus/net/message.go"})
	c.Net = simnet.Config{IOYield: r.IntN(5) != 0}
	c.Net.Capacity = []int{0, 16, 64, 512, 65536}[r.IntN(5)]
	c.Net.ReadMode = []string{"greedy", "random", "tiny", "byte"}[r.IntN(4)]
	senders := 2 + r.IntN(7)
	if c.Net.ReadMode == "byte" || c.Net.ReadMode == "tiny" {
		senders = 2 + r.IntN(3)
	}
	c.Params["senders"] = senders
	c.Params["handlers"] = 1 + r.IntN(4)
	c.Params["small"] = 1 + r.IntN(3)
	c.Params["hseed"] = r.IntN(1 << 20)
	// sends that fail on another, dead connection of the same process, before
	// and while the senders are at work (what is shared between endpoints -
	// buffers, pools - must not suffer)
	c.Params["doomed"] = []int{0, 0, 2, 5}[r.IntN(4)]
	c.Params["transport"] = []int{0, 0, 1, 2, 3, 4, 5}[r.IntN(7)]
	c.Params["concurrent_install"] = r.IntN(2)
	c.Params["fillers"] = []int{0, 0, 0, 9, 10, 11}[r.IntN(6)]
	if r.IntN(60) == 0 {
		// a table that has grown beyond a thousand entries (a busy
		// connection: that many calls or subscriptions at once)
		c.Params["fillers"] = []int{1023, 1030, 1100, 2050}[r.IntN(4)]
	}
	// ... and that go away while the traffic flows and other handlers come
	if c.Params["fillers"] > 0 && r.IntN(2) == 0 {
		c.Params["fillers_async"] = 1
	}
	// handlers that come and go while the traffic flows
	c.Params["oneshots"] = []int{0, 0, 1, 2, 3}[r.IntN(5)]
	c.Params["late"] = []int{0, 0, 1, 2, 3}[r.IntN(5)]
	c.Params["late_delay"] = r.IntN(40)
	if r.IntN(3) == 0 {
		c.Params["early"] = 1 + r.IntN(4)
		c.Params["early_delay"] = r.IntN(60)
	}
	if r.IntN(8) == 0 {
		// the receiver stops reading for a few simulated seconds while the
		// senders are blocked in the middle of their messages, then resumes:
		// nothing may have been lost, cut or mixed meanwhile
		c.Batch = "receiver-pauses"
		c.Params["pause_ms"] = []int{1000, 6500, 31000, 61000}[r.IntN(4)]
		c.Sim.MaxIdleMs = 70000
		if c.Net.Capacity == 0 || c.Net.Capacity > 512 {
			c.Net.Capacity = []int{16, 64, 512}[r.IntN(3)]
		}
		if c.Params["transport"] == 4 || c.Params["transport"] == 5 {
			c.Params["transport"] = 1
		}
	}
	if c.Batch == "" && r.IntN(8) == 0 {
		// the stream ends (the sending process dies, the connection is reset)
		// at a chosen byte: on a message boundary, inside a header, between a
		// header and its payload, inside a payload. What was received whole
		// before that is delivered, nothing else is
		c.Batch = "stream-cut"
		c.Params["cut"] = 1
		c.Params["cut_frame"] = r.IntN(64)
		c.Params["cut_delta"] = r.IntN(8)
		c.Params["cut_reset"] = r.IntN(2)
		c.Params["transport"] = 0
		c.Params["late"] = 0
		c.Params["early"] = 0
		c.Net.Capacity = 0
	}
	sizes := []int{0, 0, 1, 3, 27, 28, 29, 100, 255, 600, 600, 5000, 20000, 70000}
	if c.Net.ReadMode == "byte" || c.Net.ReadMode == "tiny" || c.Net.Capacity == 16 {
		sizes = sizes[:11]
	}
	for s := 0; s < senders; s++ {
		n := 1 + r.IntN(5)
		for i := 0; i < n; i++ {
			c.Ops = append(c.Ops, core.Op{Kind: "send", Actor: s, X: int64(1 + r.IntN(8)), Y: int64(sizes[r.IntN(len(sizes))])})
		}
	}
	return c
}

type c10handler struct {
	kind  string
	arg   uint32
	queue chan *net.Message
	small bool
	// registered with AddHandler: the endpoint owns a 10-slot queue and a
	// goroutine that hands each message to this function
	fn  bool
	mu  sync.Mutex
	got []*net.Message
	// oneshot: the filter gives the handler up with the first message it
	// selects (what a reply handler does)
	oneshot bool
	// late: registered while the traffic flows, by a goroutine of its own
	late bool
	// regSeq: (late) the registration had returned by this moment
	regSeq int64
}

func (h *c10handler) match(typ uint8, service, id uint32) bool {
	switch h.kind {
	case "all":
		return true
	case "type":
		return uint32(typ) == h.arg
	case "service":
		return service == h.arg
	case "parity":
		return id%2 == h.arg
	}
	return false
}

type c10sent struct {
	id      uint32
	typ     uint8
	service uint32
	payload []byte
	err     error
}

// c10listener adapts a simulated listener to net.Listener.
type c10listener struct{ l *simnet.Listener }

func (l c10listener) Accept() (net.Stream, error) {
	c, err := l.l.Accept()
	if err != nil {
		return nil, err
	}
	return net.ConnStream(c), nil
}
func (l c10listener) Close() error { return l.l.Close() }

type c10state struct {
	a        *simnet.Conn
	handlers []*c10handler
	mu       sync.Mutex
	sent     map[int][]c10sent
	total    int
	cutPos   int // (stream-cut) the receiver's stream ended after this many bytes
}

func (c10) Run(c *core.Case, env *core.Env) {
	st := &c10state{sent: map[int][]c10sent{}}
	env.Set("st", st)
	total := len(c.Ops) + c.P("early", 0)
	st.total = total
	zzsim.SetNode("receiver")
	// transport: 0 a connected pair handed to ConnEndPoint; 1-3 the address
	// forms of Listen/DialEndPoint (tcp, unix, tcps on the dialing side);
	// 4 the synchronous in-memory pipe (every Write waits for its reader)
	transport := c.P("transport", 0)
	// 5 the pipes whose ends travel over a unix socket (pipe://)
	addr := []string{"", "tcp://receiver:7", "unix:///run/receiver.sock", "tcps://receiver:7", "", "pipe:///run/receiver-fd.sock"}
	var a, b *simnet.Conn
	var accepted net.Stream
	var lst net.Listener
	switch transport {
	case 1, 2, 5:
		l, err := net.Listen(addr[transport])
		if err != nil {
			env.Note("listen: %v", err)
			return
		}
		lst = l
	case 3:
		// listening with TLS needs a certificate (real key generation); the
		// accepting side is opened on the simulated network directly
		l, err := simnet.Listen("tls+tcp", "receiver:7")
		if err != nil {
			env.Note("listen: %v", err)
			return
		}
		lst = c10listener{l}
	case 4:
		a, b = simnet.Pipe()
	default:
		a, b = simnet.BufferedPair("sender", "receiver")
		if c.P("cut", 0) == 1 {
			// nothing is taken from the connection until everything was sent
			// and the place of the cut is chosen
			b.StallReads(true)
		}
	}
	st.cutPos = -1
	hr := rand.New(rand.NewPCG(uint64(c.P("hseed", 1)), 7))
	senders := c.P("senders", 2)
	st.handlers = append(st.handlers, &c10handler{kind: "all", queue: make(chan *net.Message, total+1)})
	for i := 0; i < c.P("handlers", 1); i++ {
		h := &c10handler{queue: make(chan *net.Message, total+1)}
		switch hr.IntN(4) {
		case 0:
			h.kind, h.arg = "type", uint32(1+hr.IntN(8))
		case 1:
			h.kind, h.arg = "service", uint32(hr.IntN(senders))
		case 2:
			h.kind, h.arg = "parity", uint32(hr.IntN(2))
		case 3:
			h.kind = "none"
		}
		if hr.IntN(4) == 0 {
			h.fn = true
			h.small = total > 10 // its queue of 10 may overflow
		}
		st.handlers = append(st.handlers, h)
	}
	// a handler with a deliberately small queue, at a drawn position of the
	// table (the handlers behind it must not suffer from its overflow), and
	// sometimes a second one
	small := &c10handler{kind: "all", small: true, queue: make(chan *net.Message, c.P("small", 1))}
	pos := hr.IntN(len(st.handlers) + 1)
	st.handlers = append(st.handlers[:pos:pos], append([]*c10handler{small}, st.handlers[pos:]...)...)
	if hr.IntN(3) == 0 {
		st.handlers = append(st.handlers, &c10handler{kind: "parity", arg: uint32(hr.IntN(2)), small: true, queue: make(chan *net.Message, 1)})
	}
	for i := 0; i < c.P("oneshots", 0); i++ {
		h := &c10handler{oneshot: true, queue: make(chan *net.Message, total+1)}
		switch hr.IntN(3) {
		case 0:
			h.kind = "all"
		case 1:
			h.kind, h.arg = "parity", uint32(hr.IntN(2))
		default:
			h.kind, h.arg = "service", uint32(hr.IntN(senders))
		}
		pos := hr.IntN(len(st.handlers) + 1)
		st.handlers = append(st.handlers[:pos:pos], append([]*c10handler{h}, st.handlers[pos:]...)...)
	}
	var rx net.EndPoint
	var fillerIDs []int
	install := func(e net.EndPoint) {
		rx = e
		// the handlers are registered one after the other, or all at once
		// from as many goroutines: each must get a slot of its own
		// sometimes the table is first filled with handlers that go away
		// again once the real ones are in: those then live in the part of
		// the table that was grown, above a run of free slots
		var fillers []int
		zzsim.Calm(c.P("fillers", 0) > 100)
		for k := 0; k < c.P("fillers", 0); k++ {
			// (their close callback takes a moment, as an application's may)
			pause := k % 4
			fillers = append(fillers, e.MakeHandler(func(*net.Header) (bool, bool) { return false, true }, make(chan *net.Message, 1), func(error) {
				for j := 0; j < pause; j++ {
					zzsim.Yield("h.filler-closer")
				}
			}))
		}
		zzsim.Calm(false)
		if c.P("fillers_async", 0) == 1 {
			fillerIDs = fillers
		} else {
			defer func() {
				for _, id := range fillers {
					if err := e.RemoveHandler(id); err != nil {
						env.Violate("filler-removal", "removing a registered handler failed: %v", err)
					}
				}
			}()
		}
		var iwg sync.WaitGroup
		ids := make([]int, len(st.handlers))
		for k, h := range st.handlers {
			k, h := k, h
			filter := func(hdr *net.Header) (bool, bool) {
				m := h.match(hdr.Type, hdr.Service, hdr.ID)
				if h.oneshot {
					return m, !m
				}
				return m, true
			}
			register := func() {
				if h.fn {
					ids[k] = e.AddHandler(filter, func(m *net.Message) error {
						h.mu.Lock()
						h.got = append(h.got, m)
						h.mu.Unlock()
						return nil
					}, nil)
					env.Probe("handlers-with-consumer-function")
					return
				}
				ids[k] = e.MakeHandler(filter, h.queue, nil)
			}
			if c.P("concurrent_install", 0) == 1 {
				iwg.Add(1)
				go func() {
					defer iwg.Done()
					register()
				}()
			} else {
				register()
			}
		}
		iwg.Wait()
		seen := map[int]int{}
		for k, id := range fillers {
			// (the fillers are still there: they go once this function returns)
			if prev, dup := seen[id]; dup {
				env.Violate("handler-id-given-twice", "handlers %d and %d of a table of %d, both registered and live, were given the same identifier %d", -1-prev, k, len(fillers), id)
			}
			seen[id] = -1 - k
		}
		if len(fillers) > 1000 {
			env.Probe("tables-of-more-than-a-thousand-handlers")
		}
		for k, id := range ids {
			if prev, dup := seen[id]; dup {
				env.Violate("handler-id-given-twice", "handlers %d and %d, both registered and live, were given the same identifier %d", prev, k, id)
			}
			seen[id] = k
		}
	}
	var ea net.EndPoint
	var earlyWG sync.WaitGroup
	if lst != nil {
		ready := make(chan struct{})
		go func() {
			defer close(ready)
			s, err := lst.Accept()
			if err != nil {
				env.Note("accept: %v", err)
				return
			}
			accepted = s
			net.EndPointFinalizer(s, install)
		}()
		zzsim.SetNode("sender")
		e, err := net.DialEndPoint(addr[transport])
		zzsim.SetNode("harness")
		if err != nil {
			env.Note("dial: %v", err)
			return
		}
		<-ready
		if accepted == nil {
			return
		}
		ea = e
		a = env.NW.Conns()[0]
		if transport == 5 {
			// what the sender writes goes into the pipe it made
			a = nil
			for _, cn := range env.NW.Conns() {
				if cn.LocalAddr().Network() == "ospipe" && cn.Node() == "sender" {
					a = cn
				}
			}
			if a == nil {
				env.Note("no pipe made by the sender")
				return
			}
		}
		env.Probe(fmt.Sprintf("transport-%s", addr[transport][:4]))
	} else {
		zzsim.SetNode("sender")
		ea = net.ConnEndPoint(a)
		zzsim.SetNode("harness")
		if n := c.P("early", 0); n > 0 {
			// one more sender, whose messages are on their way before the
			// receiving end point exists: its handlers are registered by the
			// finalizer, which is there so that nothing is missed
			s := c.P("senders", 2)
			earlyWG.Add(1)
			go func() {
				defer earlyWG.Done()
				for i := 0; i < n; i++ {
					id := uint32(s)<<16 | uint32(i)
					payload := bytes.Repeat([]byte{byte(0x40 + s)}, 3*i)
					hdr := net.NewHeader(uint8(1+i%8), uint32(s), uint32(i), uint32(3*i), id)
					h := env.Invoke(s, "send", fmt.Sprintf("id=%#x type=%d len=%d (early)", id, 1+i%8, 3*i))
					err := ea.Send(net.NewMessage(hdr, payload))
					env.Return(h, "", err)
					st.mu.Lock()
					st.sent[s] = append(st.sent[s], c10sent{id, uint8(1 + i%8), uint32(s), payload, err})
					st.mu.Unlock()
				}
			}()
			for j := 0; j < c.P("early_delay", 0); j++ {
				zzsim.Yield("h.early-sender")
			}
			env.Probe("messages-sent-before-the-receiving-endpoint-existed")
		}
		zzsim.SetNode("receiver")
		net.EndPointFinalizer(net.ConnStream(b), install)
		zzsim.SetNode("harness")
		env.Probe(fmt.Sprintf("transport-pair-%d", transport))
	}
	st.a = a
	if ms := c.P("pause_ms", 0); ms > 0 && a != nil {
		rx := a.Peer()
		rx.StallReads(true)
		go func() {
			time.Sleep(time.Duration(ms) * time.Millisecond)
			zzsim.Event("the receiver resumes reading")
			rx.StallReads(false)
			env.Probe("receiver-paused-and-resumed")
		}()
	}
	by := map[int][]core.Op{}
	var actors []int
	for _, op := range c.Ops {
		if _, ok := by[op.Actor]; !ok {
			actors = append(actors, op.Actor)
		}
		by[op.Actor] = append(by[op.Actor], op)
	}
	var wg sync.WaitGroup
	for k := 0; k < c.P("late", 0) && rx != nil; k++ {
		h := &c10handler{kind: "all", late: true, queue: make(chan *net.Message, total+1)}
		st.mu.Lock()
		st.handlers = append(st.handlers, h)
		st.mu.Unlock()
		wg.Add(1)
		go func(k int) {
			defer wg.Done()
			zzsim.SetNode("receiver")
			for j := 0; j < c.P("late_delay", 0)*(k+1); j++ {
				zzsim.Yield("h.late-handler")
			}
			rx.MakeHandler(func(hdr *net.Header) (bool, bool) { return true, true }, h.queue, nil)
			seq := zzsim.Seq()
			st.mu.Lock()
			h.regSeq = seq
			st.mu.Unlock()
			env.Probe("handlers-registered-during-the-traffic")
		}(k)
	}
	if len(fillerIDs) > 0 && rx != nil {
		wg.Add(1)
		go func() {
			defer wg.Done()
			zzsim.SetNode("receiver")
			for _, id := range fillerIDs {
				for j := 0; j < c.P("late_delay", 0)%7; j++ {
					zzsim.Yield("h.filler-removal")
				}
				if err := rx.RemoveHandler(id); err != nil {
					env.Violate("filler-removal", "removing a registered handler failed: %v", err)
				}
			}
			env.Probe("handlers-removed-during-the-traffic")
		}()
	}
	if n := c.P("doomed", 0); n > 0 {
		zzsim.SetNode("sender")
		da, db := simnet.BufferedPair("sender", "nobody")
		dead := net.ConnEndPoint(da)
		zzsim.SetNode("harness")
		db.Close()
		failing := func(k int) {
			for i := 0; i < k; i++ {
				hdr := net.NewHeader(net.Call, 99, 99, 99, uint32(i))
				if dead.Send(net.NewMessage(hdr, bytes.Repeat([]byte{0xEE}, 40+i))) != nil {
					env.Probe("send-failed-on-dead-connection")
				}
			}
		}
		failing(1)
		wg.Add(1)
		go func() {
			defer wg.Done()
			failing(n)
		}()
	}
	for _, s := range actors {
		wg.Add(1)
		go func(s int) {
			defer wg.Done()
			for i, op := range by[s] {
				id := uint32(s)<<16 | uint32(i)
				payload := bytes.Repeat([]byte{byte(0x40 + s)}, int(op.Y))
				hdr := net.NewHeader(uint8(op.X), uint32(s), uint32(i), uint32(op.Y), id)
				h := env.Invoke(s, "send", fmt.Sprintf("id=%#x type=%d len=%d", id, op.X, op.Y))
				err := ea.Send(net.NewMessage(hdr, payload))
				env.Return(h, "", err)
				st.mu.Lock()
				st.sent[s] = append(st.sent[s], c10sent{id, uint8(op.X), uint32(s), payload, err})
				st.mu.Unlock()
			}
		}(s)
	}
	wg.Wait()
	earlyWG.Wait()
	if c.P("cut", 0) == 1 && b != nil {
		wire, _ := a.Sent()
		frames, _, _ := ref.ParseStream(wire)
		if len(frames) == 0 {
			b.StallReads(false)
			return
		}
		f := frames[c.P("cut_frame", 0)%len(frames)]
		size := 28 + len(f.Payload)
		delta := []int{0, 1, 27, 28, 29, 28 + len(f.Payload)/2, size - 1, 14}[c.P("cut_delta", 0)%8]
		if delta >= size {
			delta = size - 1
		}
		st.cutPos = f.End - size + delta
		zzsim.Event("the receiver's stream will end after %d bytes (frame %#x, %d bytes into it)", st.cutPos, f.ID, delta)
		b.CutIncomingAfter(st.cutPos, c.P("cut_reset", 0) == 1)
		b.StallReads(false)
		env.Probe(fmt.Sprintf("stream-cut-%d-bytes-into-a-message", []int{0, 1, 27, 28, 29, 30, 31, 14}[c.P("cut_delta", 0)%8]))
		env.S.Quiesce()
	}
}

func (c10) Check(c *core.Case, env *core.Env, res zzsim.Result, v *core.Verdict) {
	st, _ := env.Get("st").(*c10state)
	if st == nil {
		return
	}
	bad := func(class, format string, args ...interface{}) {
		v.Violations = append(v.Violations, core.Violation{Class: "C10/" + class, Detail: fmt.Sprintf(format, args...)})
	}
	hs := env.History()
	for _, h := range hs {
		if h.Ret == 0 {
			bad("hang/send", "Send never returned: %s", h)
			return
		}
		if !h.OK {
			bad("send-error", "Send failed on a healthy connection: %s", h)
		}
		v.OpsDone++
	}
	if st.a == nil {
		bad("connect", "the connection could not be set up on a fault-free network: %v", env.Notes())
		return
	}
	// 1. the wire carries a clean sequence of frames: the messages sent, each once
	wire, _ := st.a.Sent()
	frames, consumed, err := ref.ParseStream(wire)
	if err != nil || consumed != len(wire) {
		bad("stream-corrupt", "bytes on the wire are not a clean frame sequence: %v (parsed %d of %d bytes)", err, consumed, len(wire))
		return
	}
	type key struct{ id uint32 }
	want := map[uint32]c10sent{}
	for _, l := range st.sent {
		for _, m := range l {
			want[m.id] = m
		}
	}
	seen := map[uint32]int{}
	lastSeq := map[uint32]int{}
	for _, f := range frames {
		m, ok := want[f.ID]
		if !ok {
			bad("stream-corrupt", "a frame nobody sent is on the wire: %s", f)
			continue
		}
		seen[f.ID]++
		if f.Type != m.typ || f.Service != m.service || !bytes.Equal(f.Payload, m.payload) {
			bad("stream-corrupt", "frame %#x on the wire differs from what was sent", f.ID)
		}
		s, i := f.ID>>16, int(f.ID&0xffff)
		if prev, ok := lastSeq[s]; ok && i <= prev {
			bad("sender-order", "sender %d: message %d is on the wire after message %d", s, i, prev)
		}
		lastSeq[s] = i
	}
	for id := range want {
		if seen[id] != 1 {
			bad("not-exactly-once", "message %#x is %d times on the wire", id, seen[id])
		}
	}
	// (stream-cut) the messages that arrived are those received whole before
	// the end of the stream
	if st.cutPos >= 0 {
		var whole []ref.Frame
		for _, f := range frames {
			if f.End <= st.cutPos {
				whole = append(whole, f)
			}
		}
		frames = whole
	}
	// when each message was handed to Send
	sendCall := map[uint32]int64{}
	for _, h := range hs {
		var id uint32
		if _, err := fmt.Sscanf(h.Arg, "id=%v", &id); err == nil {
			sendCall[id] = h.Call
		}
	}
	// 2. every handler got exactly the filtered arrival sequence
	if v.Stats.Steps > 0 && res.Quiescent {
		for hi, h := range st.handlers {
			var got []uint32
			if h.fn {
				h.mu.Lock()
				for _, m := range h.got {
					got = append(got, m.Header.ID)
					w := want[m.Header.ID]
					if !bytes.Equal(m.Payload, w.payload) || m.Header.Type != w.typ {
						bad("message-altered", "handler %d received message %#x altered", hi, m.Header.ID)
					}
				}
				h.mu.Unlock()
			}
			for !h.fn {
				select {
				case m := <-h.queue:
					if m == nil {
						if (!h.oneshot || len(got) == 0) && st.cutPos < 0 {
							bad("handler-closed", "handler %d queue closed on a healthy connection", hi)
						}
					} else {
						got = append(got, m.Header.ID)
						w := want[m.Header.ID]
						if !bytes.Equal(m.Payload, w.payload) || m.Header.Type != w.typ {
							bad("message-altered", "handler %d received message %#x altered", hi, m.Header.ID)
						}
						continue
					}
				default:
				}
				break
			}
			var exp []uint32
			for _, f := range frames {
				if h.match(f.Type, f.Service, f.ID) {
					exp = append(exp, f.ID)
				}
			}
			if h.oneshot {
				// exactly the first message its filter selects
				if len(exp) > 1 {
					exp = exp[:1]
				}
				env.Probe("one-shot-handlers")
			}
			if h.late {
				// everything that arrived from some moment on, and that
				// moment no later than the registration: what was sent after
				// the registration had returned is owed
				owedFrom := len(exp)
				for k, id := range exp {
					if c, known := sendCall[id]; known && h.regSeq != 0 && c > h.regSeq {
						owedFrom = k
						break
					}
				}
				ok := false
				for k := 0; k <= owedFrom; k++ {
					if fmt.Sprint(got) == fmt.Sprint(exp[k:]) {
						ok = true
						break
					}
				}
				if !ok {
					bad("late-handler-not-a-suffix", "handler %d, registered while the traffic flowed, received %x: not what arrived from some moment on (arrival order %x)", hi, got, exp)
				}
				continue
			}
			if h.small {
				// only: a subsequence, in order, without duplicates
				j := 0
				for _, id := range got {
					for j < len(exp) && exp[j] != id {
						j++
					}
					if j == len(exp) {
						bad("handler-order", "small-queue handler got %#x out of arrival order or twice: got %x, arrival %x", id, got, exp)
						break
					}
					j++
				}
				continue
			}
			if fmt.Sprint(got) != fmt.Sprint(exp) {
				bad("handler-subsequence", "handler %d (%s/%d) received %x, its filter selects %x in arrival order", hi, h.kind, h.arg, got, exp)
			}
		}
	}
	ov := overlapping(hs)
	env.ProbeN("overlapping-sends", ov)
	v.Nontrivial = ov > 0 && v.Stats.Switches > 0
}
