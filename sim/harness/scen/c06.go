package scen

import (
	"fmt"
	"math/rand/v2"
	"strings"
	"sync"
	"time"

	"github.com/lugu/qiloop/bus"
	probe "github.com/lugu/qiloop/zzprobe"

	"qsimharness/core"
	"qsimharness/ref"
	"zzsim"
)

// C06: only connections that presented accepted credentials reach any
// service; nothing in the client-supplied capability map and no message type
// substitutes for that; authenticating one connection grants nothing to
// another; addressing another service before authenticating is answered with
// an error and the connection is closed.
type c06 struct{}

func init() { core.Register("C06", func() core.Scenario { return c06{} }) }

var c06auths = []string{"valid", "valid", "wrong-token", "unknown-user", "empty", "nonstring-user", "nonstring-token", "forged-uint", "forged-int",
	"resplit", "resplit", "padded", "padded", "swapped", "token-prefix", "user-case", "other-users-token",
	"forged-string", "forged-list", "dup-valid-first", "dup-valid-last", "too-many", "truncated", "capability-message", "garbage"}

func (c06) Gen(r *rand.Rand, tier string, run int) *core.Case {
	c := &core.Case{Prop: "C06", Params: map[string]int{}}
	c.Sim = baseSim(r, []string{"bus/server.go", "bus/authenticate.go", "bus/auth.go"})
	c.Net = baseNet(r)
	if c.Net.ReadMode == "tiny" {
		c.Net.ReadMode = "random"
	}
	c.Params["authenticator"] = r.IntN(4) // 0 dictionary, 1 yes, 2 no, 3 predicate
	c.Params["auth_ms"] = []int{0, 0, 0, 40, 700, 1200, 2500}[r.IntN(7)]
	c.Params["stream_names"] = []int{0, 0, 0, 1, 1, 2, 3, 4}[r.IntN(8)]
	hostiles := 1 + r.IntN(2)
	c.Params["hostiles"] = hostiles
	c.Params["honest"] = r.IntN(2)
	// the first hostile peer does not listen: whatever the server writes to
	// it fails (it shut its reading side down), what it sends arrives
	if r.IntN(6) == 0 {
		c.Params["deaf"] = 1
	}
	c.Params["local_client"] = r.IntN(3) // 0 no; 1 before the hostile connections; 2 concurrently
	for x := 0; x < hostiles; x++ {
		n := 2 + r.IntN(7)
		for i := 0; i < n; i++ {
			var op core.Op
			switch k := r.IntN(10); {
			case k < 3:
				op = core.Op{Kind: "auth", S: c06auths[r.IntN(len(c06auths))]}
			case k < 9:
				// Y: target selector
				op = core.Op{Kind: "frame", X: int64(1 + r.IntN(8)), Y: int64(r.IntN(48)), S: []string{"tok", "tok", "empty"}[r.IntN(3)]}
			default:
				op = core.Op{Kind: "wait"}
			}
			op.Actor = 200 + x
			c.Ops = append(c.Ops, op)
		}
	}
	return c
}

type c06pred struct{}

func (c06pred) Authenticate(user, token string) bool {
	return user != "" && token == "T-"+user
}

// c06slow is an authenticator that takes its (simulated) time to decide.
type c06slow struct {
	inner bus.Authenticator
	ms    int
}

func (a c06slow) Authenticate(user, token string) bool {
	time.Sleep(time.Duration(a.ms) * time.Millisecond)
	return a.inner.Authenticate(user, token)
}

type c06sent struct {
	off    int // end offset in the connection's sent stream
	frame  ref.Frame
	key    string
	isAuth bool
}

type c06conn struct {
	x    int
	raw  *Raw
	sent []c06sent
	deaf bool // what the server writes to this peer fails
}

type c06state struct {
	mu     sync.Mutex
	conns  []*c06conn
	w      *World
	auth   bus.Authenticator
	honest int // noarg calls issued by the honest client
}

func c06creds(kind int) (string, string) {
	switch kind {
	case 0:
		return "u", "p"
	case 3:
		return "alice", "T-alice"
	}
	return "anyone", "anything"
}

func (c06) Run(c *core.Case, env *core.Env) {
	st := &c06state{}
	env.Set("st", st)
	kind := c.P("authenticator", 0)
	switch kind {
	case 0:
		st.auth = bus.Dictionary(map[string]string{"u": "p", "v": "q"})
	case 1:
		st.auth = bus.Yes{}
	case 2:
		st.auth = bus.No{}
	default:
		st.auth = c06pred{}
	}
	var serverAuth bus.Authenticator = st.auth
	if ms := c.P("auth_ms", 0); ms > 0 {
		// the verdicts take time (a remote database...): requests queue up
		// behind each other at service zero meanwhile
		serverAuth = c06slow{st.auth, ms}
	}
	w, err := StartServer(env, serverAuth, 2)
	if err != nil {
		env.Violate("harness/setup", "%v", err)
		return
	}
	st.w = w
	user, token := c06creds(kind)
	var wg sync.WaitGroup
	if c.P("honest", 0) == 1 && kind != 2 {
		wg.Add(1)
		go func() {
			defer wg.Done()
			cl, err := Connect("honest", user, token)
			if err != nil {
				env.Violate("honest-client-refused", "the honest client could not authenticate: %v", err)
				return
			}
			p, err := ProbeProxy(cl, w.ServiceID, 1)
			if err != nil {
				env.Violate("honest-client-refused", "the honest client could not reach the service: %v", err)
				return
			}
			for i := 0; i < 2; i++ {
				tok := probe.Token{Client: 1, Seq: int32(i), Nonce: 7, Text: "h"}
				h := env.Invoke(1, "echo", tokOf(tok).Key())
				ret, err := p.Echo(tok)
				env.Return(h, tokOf(ret).String(), err)
				st.mu.Lock()
				st.honest++
				st.mu.Unlock()
				h = env.Invoke(1, "noarg", "")
				_, err = p.Noarg()
				env.Return(h, "", err)
			}
		}()
	}
	// the hosting process may use the server's in-process client (which needs
	// no authentication) for its own purposes
	local := func() {
		zzsim.SetNode("server")
		cl := w.Srv.Client()
		p, err := ProbeProxy(cl, w.ServiceID, 1)
		zzsim.SetNode("harness")
		if err != nil {
			env.Violate("local-client-refused", "the server's own in-process client could not reach the service: %v", err)
			return
		}
		tok := probe.Token{Client: 1, Seq: 50, Nonce: 9, Text: "l"}
		h := env.Invoke(1, "echo", tokOf(tok).Key())
		ret, err := p.Echo(tok)
		env.Return(h, tokOf(ret).String(), err)
	}
	switch c.P("local_client", 0) {
	case 1:
		local()
	case 2:
		wg.Add(1)
		go func() {
			defer wg.Done()
			local()
		}()
	}
	by := map[int][]core.Op{}
	var actors []int
	for _, op := range c.Ops {
		if _, ok := by[op.Actor]; !ok {
			actors = append(actors, op.Actor)
		}
		by[op.Actor] = append(by[op.Actor], op)
	}
	for _, a := range actors {
		x := a - 200
		raw, err := DialRaw(env, fmt.Sprintf("hostile%d", x), a)
		if err != nil {
			env.Violate("harness/dial", "%v", err)
			return
		}
		hc := &c06conn{x: x, raw: raw}
		if c.P("deaf", 0) == 1 && x == 0 {
			hc.deaf = true
			raw.Conn.Peer().FailWrites(fmt.Errorf("write: broken pipe (the peer does not listen)"))
			env.Probe("hostile-peers-that-do-not-listen")
		}
		st.conns = append(st.conns, hc)
		wg.Add(1)
		go func(hc *c06conn, ops []core.Op) {
			defer wg.Done()
			c06hostile(c, env, st, hc, ops)
		}(hc, by[a])
	}
	wg.Wait()
}

func c06authPayload(variant string, user, token string, r *rand.Rand) []byte {
	std := []ref.CapEntry{{Key: "ClientServerSocket", Val: ref.BoolVal(true)}, {Key: "MessageFlags", Val: ref.BoolVal(true)}}
	u := func(s string) ref.CapEntry { return ref.CapEntry{Key: "auth_user", Val: ref.StrVal(s)} }
	t := func(s string) ref.CapEntry { return ref.CapEntry{Key: "auth_token", Val: ref.StrVal(s)} }
	state := func(v []byte) ref.CapEntry { return ref.CapEntry{Key: "__qi_auth_state", Val: v} }
	switch variant {
	case "valid":
		return ref.EncodeCapMap(append(std, u(user), t(token)))
	case "wrong-token":
		return ref.EncodeCapMap(append(std, u(user), t(token+"x")))
	case "unknown-user":
		return ref.EncodeCapMap(append(std, u("mallory"), t(token)))
	case "resplit":
		// the same characters cut elsewhere: nothing the authenticator accepts
		all := user + token
		k := r.IntN(len(all) + 1)
		if k == len(user) {
			k = 0
		}
		return ref.EncodeCapMap(append(std, u(all[:k]), t(all[k:])))
	case "padded":
		// an accepted pair with white space around one of its halves: another
		// pair, which an authenticator that compares refuses
		pads := []string{" ", "\n", "\t", "\r\n", "\u00a0"}
		pu, pt := user, token
		switch r.IntN(4) {
		case 0:
			pt = token + pads[r.IntN(len(pads))]
		case 1:
			pu = user + pads[r.IntN(len(pads))]
		case 2:
			pu = pads[r.IntN(len(pads))] + user
		default:
			pt = pads[r.IntN(len(pads))] + token + pads[r.IntN(len(pads))]
		}
		return ref.EncodeCapMap(append(std, u(pu), t(pt)))
	case "swapped":
		return ref.EncodeCapMap(append(std, u(token), t(user)))
	case "token-prefix":
		return ref.EncodeCapMap(append(std, u(user), t(token[:len(token)-1])))
	case "user-case":
		return ref.EncodeCapMap(append(std, u(strings.ToUpper(user)), t(token)))
	case "other-users-token":
		return ref.EncodeCapMap(append(std, u("v"), t(token)))
	case "empty":
		return ref.EncodeCapMap(std)
	case "nonstring-user":
		return ref.EncodeCapMap(append(std, ref.CapEntry{Key: "auth_user", Val: ref.U32Val(1)}, t(token)))
	case "nonstring-token":
		return ref.EncodeCapMap(append(std, u(user), ref.CapEntry{Key: "auth_token", Val: ref.BoolVal(true)}))
	case "forged-uint":
		return ref.EncodeCapMap(append(std, state(ref.U32Val(3)), u("mallory"), t("x")))
	case "forged-int":
		return ref.EncodeCapMap(append(std, state(ref.I32Val(3)), u("mallory"), t("x")))
	case "forged-string":
		return ref.EncodeCapMap(append(std, state(ref.StrVal("3")), u("mallory"), t("x")))
	case "forged-list":
		var b ref.Buf
		b.Str("[m]")
		b.U32(1)
		b.ValU32(3)
		return ref.EncodeCapMap(append(std, state(b.Bytes()), u("mallory"), t("x")))
	case "dup-valid-first":
		return ref.EncodeCapMap(append(std, u(user), t(token), u("mallory"), t("x")))
	case "dup-valid-last":
		return ref.EncodeCapMap(append(std, u("mallory"), t("x"), u(user), t(token)))
	case "too-many":
		var es []ref.CapEntry
		for i := 0; i < 4200; i++ {
			es = append(es, ref.CapEntry{Key: fmt.Sprintf("k%d", i), Val: ref.BoolVal(true)})
		}
		return ref.EncodeCapMap(append(es, u(user), t(token)))
	case "truncated":
		p := ref.EncodeCapMap(append(std, u(user), t(token)))
		return p[:len(p)-3]
	case "garbage":
		p := make([]byte, 1+r.IntN(40))
		for i := range p {
			p[i] = byte(r.IntN(256))
		}
		return p
	}
	return ref.EncodeCapMap(append(std, u(user), t(token)))
}

func c06hostile(c *core.Case, env *core.Env, st *c06state, hc *c06conn, ops []core.Op) {
	raw := hc.raw
	user, token := c06creds(c.P("authenticator", 0))
	pr := rand.New(rand.NewPCG(uint64(hc.x)+77, uint64(len(ops))))
	off := 0
	var lastCall uint32
	send := func(f ref.Frame, key string, isAuth bool) bool {
		b := f.Encode()
		h := env.Invoke(200+hc.x, "send", f.String())
		err := raw.SendBytes(b)
		env.Return(h, "", err)
		if err != nil {
			return false
		}
		off += len(b)
		hc.sent = append(hc.sent, c06sent{off, f, key, isAuth})
		return true
	}
	targets := [][3]uint32{
		{st.w.ServiceID, 1, ActEcho}, {st.w.ServiceID, 1, ActFire}, {st.w.ServiceID, 1, ActNoarg}, {st.w.ServiceID, st.w.ObjIDs[1], ActEcho},
		{st.w.ServiceID, 1, 2}, {0, 0, 3}, {0, 0, 8}, {7, 1, ActEcho},
		// the generic actions of an object, among them the one that carries
		// the same number as authenticate on service zero
		{st.w.ServiceID, 1, 8}, {st.w.ServiceID, 1, 8}, {st.w.ServiceID, 0, 8}, {st.w.ServiceID, st.w.ObjIDs[1], 8}, {7, 0, 8},
		{st.w.ServiceID, 1, 0}, {st.w.ServiceID, 1, 1}, {st.w.ServiceID, 1, 5}, {st.w.ServiceID, 1, 6}, {st.w.ServiceID, 1, 80},
		{st.w.ServiceID, 1, 81}, {st.w.ServiceID, 1, 84}, {st.w.ServiceID, 1, 85}, {0, 1, 8}, {0, 0, 0}, {0, 0, 2},
	}
	for i, op := range ops {
		switch op.Kind {
		case "auth":
			id := raw.NextID()
			typ := uint8(ref.Call)
			action := uint32(8)
			if op.S == "capability-message" {
				typ, action = ref.Capability, 0
			}
			if !send(ref.NewFrame(typ, 0, 0, action, id, c06authPayload(op.S, user, token, pr)), "", true) {
				return
			}
			if typ == ref.Call {
				lastCall = id
			}
		case "frame":
			tg := targets[int(op.Y)%len(targets)]
			id := raw.NextID()
			tok := ref.Token{Client: int32(200 + hc.x), Seq: int32(i), Nonce: int64(op.X), Text: "x"}
			var payload []byte
			key := ""
			if op.S == "tok" && tg[2] != ActNoarg {
				payload = ref.EncodeToken(tok)
				key = tok.Key()
			}
			if !send(ref.NewFrame(uint8(op.X), tg[0], tg[1], tg[2], id, payload), key, false) {
				return
			}
			if op.X == ref.Call {
				lastCall = id
			}
		case "wait":
			if lastCall != 0 && !hc.deaf {
				raw.WaitID(lastCall)
			}
		}
	}
}

// c06accepts is the lenient model of "this frame carries credentials the
// authenticator accepts": a tolerant parse, string values only, absent =
// empty, any combination of duplicate keys.
func c06accepts(auth bus.Authenticator, f ref.Frame) bool {
	if f.Service != 0 || f.Object != 0 || f.Action != 8 {
		return false
	}
	rd := ref.Rd{B: f.Payload}
	n := rd.U32()
	users := []string{}
	tokens := []string{}
	for i := uint32(0); i < n && rd.Err == nil && i < 100000; i++ {
		k := rd.Str()
		sig := rd.Str()
		if rd.Err != nil {
			break
		}
		switch sig {
		case "s":
			s := rd.Str()
			if rd.Err == nil {
				if k == "auth_user" {
					users = append(users, s)
				}
				if k == "auth_token" {
					tokens = append(tokens, s)
				}
			}
		case "b", "c", "C":
			rd.U8()
		case "i", "I", "f":
			rd.U32()
		case "l", "L", "d":
			rd.U64()
		default:
			// a value the tolerant parser does not follow: stop here
			rd.Err = ref.ErrShort
		}
	}
	users = append(users, "")
	tokens = append(tokens, "")
	for _, u := range users {
		for _, t := range tokens {
			if auth.Authenticate(u, t) {
				return true
			}
		}
	}
	return false
}

func (c06) Check(c *core.Case, env *core.Env, res zzsim.Result, v *core.Verdict) {
	st, _ := env.Get("st").(*c06state)
	if st == nil || st.w == nil {
		return
	}
	bad := func(class, format string, args ...interface{}) {
		v.Violations = append(v.Violations, core.Violation{Class: "C06/" + class, Detail: fmt.Sprintf(format, args...)})
	}
	hs := env.History()
	for _, h := range hs {
		if h.Ret == 0 {
			bad("hang/"+h.Kind, "operation never returned: %s", h)
		} else {
			v.OpsDone++
		}
		if h.Client == 1 && h.Ret != 0 && !h.OK {
			bad("honest-client-failed", "the honest, authenticated client was refused: %s", h)
		}
	}
	if !res.Quiescent {
		return
	}
	execs := env.Execs()
	byKey := map[string][]core.Exec{}
	noargExecs := 0
	for _, e := range execs {
		if e.Key != "" {
			byKey[e.Key] = append(byKey[e.Key], e)
		}
		if e.Method == "noarg" {
			noargExecs++
		}
	}
	noargAllowed := 0
	for _, h := range hs {
		if h.Client == 1 && h.Kind == "noarg" {
			noargAllowed++
		}
	}
	for _, hc := range st.conns {
		authedFrom := -1 // index of the first accepted authenticate frame
		for i, s := range hc.sent {
			if s.isAuth && s.frame.Type == ref.Call && c06accepts(st.auth, s.frame) {
				authedFrom = i
				break
			}
		}
		if authedFrom >= 0 {
			env.Probe("hostile-authenticated")
		}
		var firstBad *c06sent
		for i := range hc.sent {
			s := &hc.sent[i]
			mayBeAuthed := authedFrom >= 0 && i > authedFrom
			if s.key != "" && len(byKey[s.key]) > 0 && !mayBeAuthed {
				bad("unauthenticated-message-delivered", "hostile connection %d: frame %s reached the service implementation (%s) although no accepted authenticate request was sent before it", hc.x, s.frame, byKey[s.key][0].Method)
			}
			if s.frame.Action == ActNoarg && s.frame.Service == st.w.ServiceID && mayBeAuthed && (s.frame.Type == ref.Call || s.frame.Type == ref.Post) {
				noargAllowed++
			}
			// the first frame of a kind the server handles (the others are
			// ignored altogether) that addresses a service while the
			// connection cannot be authenticated triggers the firewall
			if firstBad == nil && s.frame.Service != 0 && authedFrom < 0 &&
				(s.frame.Type == ref.Call || s.frame.Type == ref.Post || s.frame.Type == ref.Capability || s.frame.Type == ref.Cancel) {
				firstBad = s
			}
		}
		// liveness: error answer and end of stream
		if firstBad != nil && c.Net.FaultGap == 0 {
			eof, _ := hc.raw.Closed()
			if !eof {
				bad("not-closed", "hostile connection %d addressed service %d before authenticating (%s) and the connection was not closed", hc.x, firstBad.frame.Service, firstBad.frame)
			}
			if firstBad.frame.Type == ref.Call && !hc.deaf {
				got := false
				for _, rf := range hc.raw.Frames() {
					if rf.F.ID == firstBad.frame.ID && rf.F.Type == ref.Error {
						got = true
					}
				}
				if !got {
					bad("no-error-answer", "hostile connection %d: the call %s sent before authenticating was not answered with an error", hc.x, firstBad.frame)
				}
			}
			env.Probe("firewall-triggered")
		}
		if err := hc.raw.Junk(); err != nil {
			bad("stream-corrupt", "hostile connection %d received a corrupt stream: %v", hc.x, err)
		}
	}
	if noargExecs > noargAllowed {
		bad("unauthenticated-message-delivered", "noarg ran %d times but authenticated connections sent only %d call/post frames for it", noargExecs, noargAllowed)
	}
	for _, hc := range st.conns {
		for _, s := range hc.sent {
			if strings.HasPrefix(s.key, "c2") && len(byKey[s.key]) > 0 {
				env.Probe("hostile-frame-executed-after-auth")
			}
		}
	}
	ov := overlapping(hs)
	v.Nontrivial = len(hs) >= 2 && v.Stats.Switches > 0
	env.ProbeN("overlapping-op-pairs", ov)
}
