package scen

import (
	"bytes"
	"sync"
	"fmt"
	"hash/fnv"
	"io"
	"math/rand/v2"

	"github.com/lugu/qiloop/bus/net"

	"qsimharness/core"
	"qsimharness/ref"
	"qsimharness/sio"
	"zzsim"
)

// C01: message framing is lossless, self-delimiting and matches the
// documented layout, however the stream fragments; bad headers are refused
// before any payload is read.
type c01 struct{}

func init() { core.Register("C01", func() core.Scenario { return c01{} }) }

func edge32(r *rand.Rand) uint32 {
	switch r.IntN(8) {
	case 0:
		return 0
	case 1:
		return 1
	case 2:
		return 1 << 31
	case 3:
		return 0xffffffff
	case 4:
		return 0x42dead42
	case 5:
		return 0x42adde42
	}
	return r.Uint32()
}

func (c01) Gen(r *rand.Rand, tier string, run int) *core.Case {
	c := &core.Case{Prop: "C01", Params: map[string]int{}}
	c.Sim = zzsim.Config{AuxSeed: r.Uint64()}
	c.Params["frag"] = r.IntN(3)
	c.Params["fragseed"] = r.IntN(1 << 30)
	c.Params["eofdata"] = r.IntN(2)
	c.Params["reuse"] = r.IntN(2)
	if r.IntN(4) == 0 {
		c.Params["short_writes"] = 1
	}
	if r.IntN(5) == 0 {
		c.Params["concurrent"] = 1
	}
	n := 1 + r.IntN(6)
	sizes := []int{0, 0, 1, 2, 27, 28, 29, 255, 256, 1000, 4096, 65536}
	big := r.IntN(150) == 0
	for i := 0; i < n; i++ {
		sz := sizes[r.IntN(len(sizes))]
		if r.IntN(12) == 0 {
			// beyond 64 KiB, anywhere in the sequence (chunked read paths)
			sz = []int{65535, 65537, 70000, 100000, 131072, 196601, 1 << 20}[r.IntN(7)]
		}
		if big && i == n-1 {
			sz = -1 // exactly the size limit
		}
		// X: type, Y: payload length, S: header fields
		c.Ops = append(c.Ops, core.Op{Kind: "msg", X: int64(1 + r.IntN(8)), Y: int64(sz),
			S: fmt.Sprintf("%d %d %d %d %d %d", edge32(r), r.IntN(256), edge32(r), edge32(r), edge32(r), r.IntN(256))})
	}
	if r.IntN(8) == 0 {
		// a message whose payload is not as long as its header says: refused
		// by the writer, or written as what the header announces - the stream
		// stays self-delimiting either way
		at := r.IntN(len(c.Ops) + 1)
		op := core.Op{Kind: "mismatch", X: int64(1 + r.IntN(8)), Y: int64([]int{0, 1, 32, 300}[r.IntN(4)]),
			S: fmt.Sprintf("%d %d %d %d %d %d", edge32(r), r.IntN(256), edge32(r), edge32(r), edge32(r), r.IntN(256))}
		c.Ops = append(c.Ops[:at:at], append([]core.Op{op}, c.Ops[at:]...)...)
	}
	switch r.IntN(6) {
	case 0:
		c.Ops = append(c.Ops, core.Op{Kind: "bad-magic", X: int64(edge32(r)), Y: int64(r.IntN(300))})
	case 1:
		c.Ops = append(c.Ops, core.Op{Kind: "bad-version", X: int64(1 + r.IntN(65535)), Y: int64(r.IntN(300))})
	case 2:
		c.Ops = append(c.Ops, core.Op{Kind: "bad-type", X: int64([]int{0, 9, 10, 128, 255}[r.IntN(5)]), Y: int64(r.IntN(300))})
	case 3:
		c.Ops = append(c.Ops, core.Op{Kind: "oversize", X: int64([]int{1, 2, 1 << 20, -1}[r.IntN(4)]), Y: int64(r.IntN(300))})
	}
	return c
}

type c01pending struct {
	i int
	f ref.Frame
	m net.Message
}

func (c01) Run(c *core.Case, env *core.Env) {
	limit := int(net.MaxPayloadSize)
	var want []ref.Frame
	var wire []byte
	var pending []c01pending
	pr := rand.New(rand.NewPCG(uint64(c.P("fragseed", 1)), 3))
	for i, op := range c.Ops {
		if op.Kind == "mismatch" {
			var id, flags, service, object, action, fill uint32
			fmt.Sscanf(op.S, "%d %d %d %d %d %d", &id, &flags, &service, &object, &action, &fill)
			announced := int(op.Y)
			actual := announced + []int{1, 6, 28, -1}[fill%4]
			if actual < 0 {
				actual = announced + 1
			}
			m := net.Message{Header: net.Header{Magic: net.Magic, ID: id, Size: uint32(announced), Type: uint8(op.X), Flags: uint8(flags), Service: service, Object: object, Action: action},
				Payload: sio.Payload(actual, fill, nil)}
			var w sio.RecWriter
			err := m.Write(&w)
			env.Probe("messages-whose-payload-is-not-the-announced-size")
			if err == nil {
				fs, consumed, perr := ref.ParseStream(w.Data)
				if perr != nil || consumed != len(w.Data) || len(fs) != 1 || len(w.Data) != 28+announced {
					env.Violate("layout/announced-size", "a message announcing %d bytes of payload and holding %d was written without an error as %d bytes: the stream is no longer a sequence of messages (parsed %d of them, %d bytes consumed, %v)", announced, actual, len(w.Data), len(fs), consumed, perr)
					return
				}
				want = append(want, fs[0])
				wire = append(wire, w.Data...)
			}
			continue
		}
		if op.Kind != "msg" {
			continue
		}
		var id, flags, service, object, action, fill uint32
		fmt.Sscanf(op.S, "%d %d %d %d %d %d", &id, &flags, &service, &object, &action, &fill)
		size := int(op.Y)
		if size < 0 {
			size = limit
		}
		// a payload that looks like a header must not confuse anything
		var looksLike []byte
		if fill%3 == 0 {
			looksLike = ref.NewFrame(ref.Call, 1, 1, 1, 1, nil).Encode()
		}
		payload := sio.Payload(size, fill, looksLike)
		f := ref.NewFrame(uint8(op.X), service, object, action, id, payload)
		f.Flags = uint8(flags)
		want = append(want, f)
		// 1. what Message.Write puts on the stream is the documented layout
		hdr := net.Header{Magic: net.Magic, ID: id, Size: uint32(size), Version: 0, Type: uint8(op.X), Flags: uint8(flags), Service: service, Object: object, Action: action}
		m := net.Message{Header: hdr, Payload: payload}
		if c.P("concurrent", 0) == 1 {
			// written later, all at once, each on a slow stream of its own
			pending = append(pending, c01pending{i, f, m})
			wire = append(wire, f.Encode()...)
			continue
		}
		var w sio.RecWriter
		h := env.Invoke(0, "write", f.String())
		var err error
		if c.P("short_writes", 0) == 1 {
			// a stream that takes a few bytes at a time
			sw := sio.ShortWriter{R: pr}
			err = m.Write(&sw)
			w.Data, w.Calls = sw.Data, sw.Calls
			env.Probe("short-writes")
		} else {
			err = m.Write(&w)
		}
		env.Return(h, fmt.Sprintf("%d bytes in %d writes", len(w.Data), len(w.Calls)), err)
		if err != nil {
			env.Violate("write-error", "Message.Write failed for message %d (%s): %v", i, f, err)
			return
		}
		if !bytes.Equal(w.Data, f.Encode()) {
			env.Violate("layout", "message %d (%s): bytes written differ from the documented layout:\n got  %x\n want %x", i, f, head(w.Data, 40), head(f.Encode(), 40))
			return
		}
		if len(w.Calls) == 1 {
			env.Probe("single-write")
		}
		wire = append(wire, w.Data...)
	}
	if len(pending) > 0 {
		// 1b. several writers at once, each on its own stream, each write
		// taking its bytes in two instalments: every stream must carry exactly
		// its own message (no state shared between writers)
		ws := make([]sio.SlowWriter, len(pending))
		errs := make([]error, len(pending))
		var wg sync.WaitGroup
		for k := range pending {
			ws[k].Pause = func() { zzsim.Yield("h.slow-write") }
			wg.Add(1)
			go func(k int) {
				defer wg.Done()
				h := env.Invoke(10+k, "write", pending[k].f.String())
				errs[k] = pending[k].m.Write(&ws[k])
				env.Return(h, fmt.Sprintf("%d bytes in %d writes", len(ws[k].Data), len(ws[k].Calls)), errs[k])
			}(k)
		}
		wg.Wait()
		for k, p := range pending {
			if errs[k] != nil {
				env.Violate("write-error", "Message.Write failed for message %d (%s): %v", p.i, p.f, errs[k])
				return
			}
			if !bytes.Equal(ws[k].Data, p.f.Encode()) {
				env.Violate("layout/concurrent-writers", "message %d (%s), written while %d other messages were being written to other streams: bytes on its stream differ from the documented layout:\n got  %x\n want %x", p.i, p.f, len(pending)-1, head(ws[k].Data, 40), head(p.f.Encode(), 40))
				return
			}
		}
		env.Probe("concurrent-writers")
	}
	// 2. a refusal case follows the valid messages
	refusal := ""
	refusalAt := len(wire)
	for _, op := range c.Ops {
		if op.Kind == "msg" {
			continue
		}
		f := ref.NewFrame(ref.Call, 1, 1, 1, 7, make([]byte, int(op.Y)&0xfff))
		switch op.Kind {
		case "bad-magic":
			f.Magic = uint32(op.X)
			if f.Magic == ref.Magic {
				f.Magic = 0x42dead43
			}
		case "bad-version":
			f.Version = uint16(op.X)
		case "bad-type":
			f.Type = uint8(op.X)
		case "oversize":
			if op.X < 0 {
				f.Size = 0xffffffff
			} else {
				f.Size = uint32(limit) + uint32(op.X)
			}
		default:
			continue
		}
		refusal = op.Kind
		wire = append(wire, f.Encode()...)
	}
	// 3. read everything back over a fragmenting stream
	rd := &sio.Reader{Data: wire, Frag: []string{"greedy", "byte", "random"}[c.P("frag", 0)], R: pr, EndErr: io.EOF, WithEnd: c.P("eofdata", 0) == 1 && refusal == ""}
	if rd.Frag == "byte" && len(wire) > 200000 {
		rd.Frag = "random"
	}
	pos := 0
	var reused net.Message
	for i, f := range want {
		var fresh net.Message
		m := &fresh
		if c.P("reuse", 0) == 1 {
			// one Message value read into again and again: nothing of the
			// previous message may survive in it
			m = &reused
		}
		h := env.Invoke(1, "read", f.String())
		err := m.Read(rd)
		env.Return(h, "", err)
		if err != nil {
			env.Violate("read-error", "message %d (%s) of %d could not be read back (%s reads, eof-with-data=%v): %v", i, f, len(want), rd.Frag, rd.WithEnd, err)
			return
		}
		pos += ref.HeaderSize + len(f.Payload)
		if rd.Off != pos {
			env.Violate("consumed", "after message %d the reader consumed %d bytes instead of %d", i, rd.Off, pos)
			return
		}
		hd := m.Header
		if hd.Magic != ref.Magic || hd.ID != f.ID || hd.Size != f.Size || hd.Version != 0 || hd.Type != f.Type || hd.Flags != f.Flags ||
			hd.Service != f.Service || hd.Object != f.Object || hd.Action != f.Action {
			env.Violate("header-altered", "message %d: header read back as %+v, written %s flags=%d", i, hd, f, f.Flags)
			return
		}
		if !bytes.Equal(m.Payload, f.Payload) {
			env.Violate("payload-altered", "message %d (%s): payload read back differs (len %d vs %d)", i, f, len(m.Payload), len(f.Payload))
			return
		}
	}
	if refusal != "" {
		var m net.Message
		h := env.Invoke(1, "read-"+refusal, "")
		err := m.Read(rd)
		env.Return(h, "", err)
		if err == nil {
			env.Violate("refusal/"+refusal+"-accepted", "a header with %s was accepted", refusal)
			return
		}
		if rd.Off != refusalAt+ref.HeaderSize {
			env.Violate("refusal/payload-consumed", "refusing a header with %s consumed %d bytes instead of exactly the 28 header bytes", refusal, rd.Off-refusalAt)
			return
		}
		env.Probe("refusal-" + refusal)
	}
	hs := fnv.New64a()
	hs.Write(wire[:min(len(wire), 4096)])
	fmt.Fprintf(hs, "%d %s %v", len(wire), rd.Frag, rd.WithEnd)
	env.Set("fp", hs.Sum64())
	env.Set("reads", rd.Reads)
	env.Set("msgs", len(want))
}

func head(b []byte, n int) []byte {
	if len(b) > n {
		return b[:n]
	}
	return b
}

func (c01) Check(c *core.Case, env *core.Env, res zzsim.Result, v *core.Verdict) {
	fp, _ := env.Get("fp").(uint64)
	reads, _ := env.Get("reads").(int)
	msgs, _ := env.Get("msgs").(int)
	v.Stats.Fingerprint = fp
	v.OpsDone = msgs
	env.ProbeN("stream-reads", reads)
	env.ProbeN("messages", msgs)
	// non-trivial: at least two messages or a fragmented read path
	v.Nontrivial = fp != 0 && (msgs >= 2 || reads > 2*msgs)
}
