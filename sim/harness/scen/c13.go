package scen

import (
	"context"
	"fmt"
	"math/rand/v2"
	"strings"
	"sync"

	"github.com/lugu/qiloop/bus"
	probe "github.com/lugu/qiloop/zzprobe"

	"qsimharness/core"
	"qsimharness/ref"
	"zzsim"
	"zzsim/simnet"
)

// C13: subscribers get each emitted event exactly once, in order, only while
// subscribed; nothing for other signals; the channel closes after cancel; no
// event on a connection after the server acknowledged the removal of its last
// registration; subscribers do not disturb each other.
type c13 struct{}

func init() { core.Register("C13", func() core.Scenario { return c13{} }) }

func (c13) Gen(r *rand.Rand, tier string, run int) *core.Case {
	c := &core.Case{Prop: "C13", Params: map[string]int{}}
	c.Sim = baseSim(r, []string{"bus/signal.go", "bus/proxy.go", "bus/client.go"})
	c.Net = baseNet(r)
	if c.Net.ReadMode == "tiny" {
		c.Net.ReadMode = "random"
	}
	subs := 2 + r.IntN(3)
	conns := 1 + r.IntN(subs)
	// Sub-batches (DESIGN.md 3.8): the configurations that can trigger the
	// known findings of this property are kept apart from those that cannot,
	// so that the findings do not blind the check.
	//   free:   subscribers share connections and signals, everything races
	//   own:    every subscriber has its own connection (no shared registration)
	//   phased: subscribe / emit / cancel / emit in phases separated by quiescence
	//   sequential: one operation at a time (a barrier after each): nothing
	//           overlaps, so no known finding can explain a violation there
	churn := false
	switch k := r.IntN(13); {
	case k == 12:
		// every subscriber on one connection and one signal, joining and
		// leaving several times while events are emitted: the shared
		// registration is created and removed again and again
		c.Batch = "free"
		churn = true
		subs = 3 + r.IntN(2)
		conns = 1
	case k < 5:
		c.Batch = "free"
	case k < 8:
		c.Batch = "own"
		conns = subs
	case k < 10:
		c.Batch = "phased"
		c.Params["phased"] = 1
	default:
		c.Batch = "sequential"
		c.Params["sequential"] = 1
	}
	c.Params["subs"] = subs
	c.Params["conns"] = conns
	c.Params["share_proxy"] = r.IntN(2)
	c.Params["instrument"] = []int{0, 0, 0, 1, 2, 3}[r.IntN(6)]
	if (c.Batch == "own" || c.Batch == "phased") && r.IntN(3) == 0 {
		// one more subscriber, registered before everybody else, whose
		// connection stops carrying what the server writes to it: the others
		// must not notice
		c.Params["broken"] = 1
		c.Params["break_after"] = r.IntN(60)
	}
	if r.IntN(4) == 0 {
		c.Params["sibling"] = 1
		c.Params["sibling_after"] = r.IntN(80)
	}
	switch r.IntN(10) {
	case 0, 1:
		// the first subscriber subscribes through a proxy bound to a context
		// and gives that context up just before it cancels its subscription
		c.Params["ctx_subs"] = 1
	case 2, 3:
		// ... or gives it up while the subscription is being made: whether
		// the subscription stands or not, nothing of it may be left behind
		// for the subscribers that follow
		c.Params["ctx_subs"] = 2
		c.Params["ctx_giveup_delay"] = r.IntN(90)
	}
	if r.IntN(4) == 0 {
		// a second service of the same kind on the same server, watched
		// through connection 0: same object id, same signal ids, other service
		c.Params["twin"] = 1
		c.Params["twin_events"] = 2 + r.IntN(7)
		c.Params["twin_pause"] = r.IntN(30)
	}
	emit := func(n int) {
		for i := 0; i < n; i++ {
			c.Ops = append(c.Ops, core.Op{Kind: "emit", Actor: 50, X: int64(r.IntN(4)), Y: int64(r.IntN(4))})
		}
	}
	if c.Batch == "sequential" {
		c.Params["subs"] = subs
		c.Params["conns"] = conns
		c.Params["share_proxy"] = r.IntN(2)
		active := map[int]bool{}
		n := 6 + r.IntN(14)
		for i := 0; i < n; i++ {
			k := r.IntN(subs)
			switch {
			case !active[k] && r.IntN(3) != 0:
				c.Ops = append(c.Ops, core.Op{Kind: "sub", Actor: k, X: int64(r.IntN(4)), Y: int64(r.IntN(conns))})
				active[k] = true
			case active[k] && r.IntN(2) == 0:
				c.Ops = append(c.Ops, core.Op{Kind: "cancel", Actor: k})
				active[k] = false
			default:
				c.Ops = append(c.Ops, core.Op{Kind: "emit", Actor: 50, X: int64(r.IntN(4))})
			}
			c.Ops = append(c.Ops, core.Op{Kind: "barrier"})
			if i == 1 && r.IntN(3) == 0 {
				// an early subscription attempt on a crowded connection
				c.Params["crowd"] = 1
				c.Ops = append(c.Ops, core.Op{Kind: "crowded-sub", Actor: 40, X: int64(r.IntN(4)), Y: int64(r.IntN(conns))}, core.Op{Kind: "barrier"})
			}
		}
		emit(2)
		return c
	}
	if c.Batch == "phased" {
		for k := 0; k < subs; k++ {
			c.Ops = append(c.Ops, core.Op{Kind: "sub", Actor: k, X: int64(r.IntN(4)), Y: int64(r.IntN(conns))})
		}
		c.Ops = append(c.Ops, core.Op{Kind: "barrier"})
		emit(2 + r.IntN(10))
		c.Ops = append(c.Ops, core.Op{Kind: "barrier"})
		for k := 0; k < subs; k++ {
			if r.IntN(2) == 0 {
				c.Ops = append(c.Ops, core.Op{Kind: "cancel", Actor: k})
				if r.IntN(2) == 0 {
					c.Ops = append(c.Ops, core.Op{Kind: "sub", Actor: k, X: int64(r.IntN(4)), Y: int64(r.IntN(conns))})
				}
			}
		}
		c.Ops = append(c.Ops, core.Op{Kind: "barrier"})
		emit(2 + r.IntN(10))
		return c
	}
	churnSig := int64(r.IntN(4))
	for k := 0; k < subs; k++ {
		conn := r.IntN(conns)
		if c.Batch == "own" {
			conn = k
		}
		n := 1 + r.IntN(3)
		if churn {
			n = 2 + r.IntN(3)
		}
		for i := 0; i < n; i++ {
			sig := int64(r.IntN(4))
			if churn {
				sig = churnSig
			}
			c.Ops = append(c.Ops, core.Op{Kind: "sub", Actor: k, X: sig, Y: int64(conn)})
			c.Ops = append(c.Ops, core.Op{Kind: "pause", Actor: k, X: int64(r.IntN(12))})
			if i < n-1 || r.IntN(2) == 0 {
				c.Ops = append(c.Ops, core.Op{Kind: "cancel", Actor: k})
				c.Ops = append(c.Ops, core.Op{Kind: "pause", Actor: k, X: int64(r.IntN(4))})
			}
		}
	}
	if churn {
		for i := 0; i < 8+r.IntN(16); i++ {
			c.Ops = append(c.Ops, core.Op{Kind: "emit", Actor: 50, X: churnSig, Y: int64(r.IntN(4))})
		}
		return c
	}
	emit(3 + r.IntN(20))
	return c
}

// c13sigs are the signals of the scenario: tick, tock and the change events
// of the property level. Emitted values tell them apart: tick n -> +n,
// tock n -> -n, level n -> 1000000+n.
var c13sigs = [4]uint32{SigTick, SigTock, PropLvl, SigNote}

func c13index(action uint32) (int, bool) {
	for i, a := range c13sigs {
		if a == action {
			return i, true
		}
	}
	return 0, false
}

func c13decode(v int32) (sig int, n int32) {
	switch {
	case v < 0:
		return 1, -v
	case v >= 2000000:
		return 3, v - 2000000
	case v >= 1000000:
		return 2, v - 1000000
	}
	return 0, v
}

// c13note is the text the n-th note carries: its number, then a padding
// whose length depends on n (some beyond any plausible buffer threshold).
func c13note(n int32) string {
	return fmt.Sprintf("%d|", 2000000+n) + strings.Repeat("p", []int{0, 100, 4096, 9000}[int(n)%4])
}

// c13noteVal recovers the number of a note and checks the text is the one
// emitted: anything else is reported as value -2147483648 (altered payload).
func c13noteVal(s string) int32 {
	var v int32
	if _, err := fmt.Sscanf(s, "%d|", &v); err != nil || v < 2000000 || s != c13note(v-2000000) {
		return -1 << 31
	}
	return v
}

// c13wireVal decodes the value an event frame carries.
func c13wireVal(f ref.Frame) (int32, bool) {
	rd := ref.Rd{B: f.Payload}
	if f.Action == SigNote {
		s := rd.Str()
		if rd.Err != nil || rd.Left() != 0 {
			return 0, false
		}
		return c13noteVal(s), true
	}
	if len(f.Payload) != 4 {
		return 0, false
	}
	return rd.I32(), true
}

type c13ev struct {
	val int32
	seq int64
}

type c13sub struct {
	sub, sig, conn        int
	ackCall, ackRet       int64
	cancelCall, cancelRet int64
	evs                   []c13ev
	closedSeq             int64
	err                   error
}

type c13emit struct {
	sig        int
	n          int32
	start, end int64
	err        error
}

type c13state struct {
	twinSent [4][]int32
	twinGot  [4][]int32
	mu    sync.Mutex
	subs  []*c13sub
	emits []c13emit
	w     *World
	pairs []int // connection pair of each client connection
}

func (c13) Run(c *core.Case, env *core.Env) {
	st := &c13state{}
	env.Set("st", st)
	w, err := StartServer(env, bus.Dictionary(map[string]string{"u": "p"}), 1)
	if err != nil {
		env.Violate("harness/setup", "%v", err)
		return
	}
	st.w = w
	if c.P("crowd", 0) == 1 {
		w.Impls[0].SlowMs = 2
	}
	if c.P("broken", 0) == 1 {
		vcl, err := Connect("victim", "u", "p")
		if err != nil {
			env.Violate("setup/connect", "%v", err)
			return
		}
		vconn := env.NW.Conns()[len(env.NW.Conns())-1]
		vp, err := ProbeProxy(vcl, w.ServiceID, 1)
		if err != nil {
			env.Violate("setup/proxy", "%v", err)
			return
		}
		_, t1, e1 := vp.SubscribeTick()
		_, t2, e2 := vp.SubscribeTock()
		_, t3, e3 := vp.SubscribeLevel()
		_, t4, e4 := vp.SubscribeNote()
		if e1 != nil || e2 != nil || e3 != nil || e4 != nil {
			env.Violate("setup/victim", "%v %v %v %v", e1, e2, e3, e4)
			return
		}
		go func() {
			for range t1 {
			}
		}()
		go func() {
			for range t2 {
			}
		}()
		go func() {
			for range t3 {
			}
		}()
		go func() {
			for range t4 {
			}
		}()
		after := c.P("break_after", 0)
		go func() {
			for j := 0; j < after; j++ {
				zzsim.Yield("h.break-delay")
			}
			zzsim.Event("the server's writes to the victim start failing")
			vconn.Peer().FailWrites(ErrVictimBroken)
			env.Probe("a-subscriber-became-unreachable")
		}()
	}
	nConn := c.P("conns", 1)
	clients := make([]bus.Client, nConn)
	shared := make([]probe.ProbeProxy, nConn)
	for i := range clients {
		before := len(env.NW.Conns())
		cl, err := Connect(fmt.Sprintf("client%d", i), "u", "p")
		if err != nil {
			env.Violate("setup/connect", "%v", err)
			return
		}
		clients[i] = cl
		st.pairs = append(st.pairs, before)
		if shared[i], err = ProbeProxy(cl, w.ServiceID, 1); err != nil {
			env.Violate("setup/proxy", "%v", err)
			return
		}
	}
	if c.P("sibling", 0) == 1 {
		// a second object of the service, with the same signals, watched from
		// connection 0 and removed at some moment: what its subscribers are
		// told is no business of the first object's subscribers
		zzsim.SetNode("server")
		sid, err := w.Svc.Add(probe.ProbeObject(&ProbeImpl{Env: env, Obj: 9}))
		zzsim.SetNode("harness")
		if err != nil {
			env.Violate("setup/sibling", "%v", err)
			return
		}
		sp, err := ProbeProxy(clients[0], w.ServiceID, sid)
		if err != nil {
			env.Violate("setup/sibling", "%v", err)
			return
		}
		_, s1, e1 := sp.SubscribeTick()
		_, s2, e2 := sp.SubscribeTock()
		_, s3, e3 := sp.SubscribeLevel()
		_, s4, e4 := sp.SubscribeNote()
		if e1 != nil || e2 != nil || e3 != nil || e4 != nil {
			env.Violate("setup/sibling", "%v %v %v %v", e1, e2, e3, e4)
			return
		}
		go func() {
			for range s1 {
			}
		}()
		go func() {
			for range s2 {
			}
		}()
		go func() {
			for range s3 {
			}
		}()
		go func() {
			for range s4 {
			}
		}()
		after := c.P("sibling_after", 0)
		go func() {
			for j := 0; j < after; j++ {
				zzsim.Yield("h.sibling-delay")
			}
			zzsim.SetNode("server")
			w.Svc.Remove(sid)
			env.Probe("sibling-object-removed")
		}()
	}
	var twinWG sync.WaitGroup
	if c.P("twin", 0) == 1 {
		zzsim.SetNode("server")
		timpl := &ProbeImpl{Env: env, Obj: 8}
		twin, err := w.Srv.NewService("Twin", probe.ProbeObject(timpl))
		zzsim.SetNode("harness")
		if err != nil {
			env.Violate("setup/twin", "%v", err)
			return
		}
		tp, err := ProbeProxy(clients[0], twin.ServiceID(), 1)
		if err != nil {
			env.Violate("setup/twin", "%v", err)
			return
		}
		_, t1, e1 := tp.SubscribeTick()
		_, t2, e2 := tp.SubscribeTock()
		_, t3, e3 := tp.SubscribeLevel()
		_, t4, e4 := tp.SubscribeNote()
		if e1 != nil || e2 != nil || e3 != nil || e4 != nil {
			env.Violate("setup/twin", "%v %v %v %v", e1, e2, e3, e4)
			return
		}
		got := func(i int, v int32) {
			st.mu.Lock()
			st.twinGot[i] = append(st.twinGot[i], v)
			st.mu.Unlock()
		}
		go func() {
			for v := range t1 {
				got(0, v)
			}
		}()
		go func() {
			for v := range t2 {
				got(1, v)
			}
		}()
		go func() {
			for v := range t3 {
				got(2, v)
			}
		}()
		go func() {
			for v := range t4 {
				got(3, c13noteVal(v))
			}
		}()
		twinWG.Add(1)
		go func() {
			defer twinWG.Done()
			zzsim.SetNode("server")
			for k := int32(1); k <= int32(c.P("twin_events", 0)); k++ {
				for j := 0; j < c.P("twin_pause", 0); j++ {
					zzsim.Yield("h.twin-pause")
				}
				i := int(k) % 4
				var v int32
				var err error
				switch i {
				case 0:
					v = 500000 + k
					err = timpl.Helper.SignalTick(v)
				case 1:
					v = -(500000 + k)
					err = timpl.Helper.SignalTock(v)
				case 2:
					v = 1500000 + k
					err = timpl.Helper.UpdateLevel(v)
				default:
					v = 2500000 + k
					err = timpl.Helper.SignalNote(c13note(500000 + k))
				}
				if err != nil {
					env.Violate("twin-service/emit", "%v", err)
				}
				st.mu.Lock()
				st.twinSent[i] = append(st.twinSent[i], v)
				st.mu.Unlock()
				env.Probe("events-of-a-twin-service-on-the-same-connection")
			}
		}()
	}
	defer twinWG.Wait()
	// statistics and tracing change the path replies and events take inside
	// an object (wrapped channels, a tracer per message)
	if k := c.P("instrument", 0); k > 0 {
		if k&1 != 0 {
			if err := shared[0].EnableStats(true); err != nil {
				env.Violate("setup/stats", "%v", err)
				return
			}
		}
		if k&2 != 0 {
			if err := shared[0].EnableTrace(true); err != nil {
				env.Violate("setup/trace", "%v", err)
				return
			}
			// somebody watches the traces, from two connections when there
			// are two: every event sent to a subscriber registered from now
			// on makes the object emit a trace event on the way
			for _, i := range []int{0, len(shared) - 1} {
				_, tch, err := shared[i].SubscribeTraceObject()
				if err != nil {
					env.Violate("setup/trace", "subscribing to the traces: %v", err)
					return
				}
				go func() {
					for range tch {
					}
				}()
				if len(shared) == 1 {
					break
				}
			}
			env.Probe("trace-subscribers")
		}
		env.Probe("object-instrumented")
	}
	// phases are separated by "barrier" operations (quiescence in between)
	var phases [][]core.Op
	cur := []core.Op{}
	for _, op := range c.Ops {
		if op.Kind == "barrier" {
			phases = append(phases, cur)
			cur = []core.Op{}
			continue
		}
		cur = append(cur, op)
	}
	phases = append(phases, cur)
	actorsState := map[int]*c13actor{}
	counts := &[4]int32{}
	for pi, ops := range phases {
		by := map[int][]core.Op{}
		var actors []int
		for _, op := range ops {
			if _, ok := by[op.Actor]; !ok {
				actors = append(actors, op.Actor)
			}
			by[op.Actor] = append(by[op.Actor], op)
		}
		var wg sync.WaitGroup
		for _, a := range actors {
			wg.Add(1)
			if a == 50 {
				go func() {
					defer wg.Done()
					zzsim.SetNode("server")
					for _, op := range by[50] {
						for j := 0; j < int(op.Y); j++ {
							zzsim.Yield("h.emit-pause")
						}
						sig := int(op.X) % 4
						counts[sig]++
						n := counts[sig]
						h := env.Invoke(50, "emit", fmt.Sprintf("sig%d n=%d", sig, n))
						var err error
						switch sig {
						case 0:
							err = w.Impls[0].Helper.SignalTick(n)
						case 1:
							err = w.Impls[0].Helper.SignalTock(-n)
						case 2:
							err = w.Impls[0].Helper.UpdateLevel(1000000 + n)
						default:
							err = w.Impls[0].Helper.SignalNote(c13note(n))
						}
						env.Return(h, "", err)
						st.mu.Lock()
						st.emits = append(st.emits, c13emit{sig, n, h.Call, h.Ret, err})
						st.mu.Unlock()
					}
				}()
				continue
			}
			as := actorsState[a]
			if as == nil {
				as = &c13actor{a: a, proxies: map[int]probe.ProbeProxy{}}
				actorsState[a] = as
			}
			go func(as *c13actor, ops []core.Op) {
				defer wg.Done()
				for _, op := range ops {
					if !as.do(c, env, st, op, clients, shared) {
						return
					}
				}
			}(as, by[a])
		}
		wg.Wait()
		if pi < len(phases)-1 {
			env.S.Quiesce()
		}
	}
}

type c13actor struct {
	a         int
	cur       *c13sub
	cancel    func()
	ctxCancel func()
	proxies map[int]probe.ProbeProxy
}

func (as *c13actor) do(c *core.Case, env *core.Env, st *c13state, op core.Op, clients []bus.Client, shared []probe.ProbeProxy) bool {
	a := as.a
	nConn := len(clients)
	switch op.Kind {
	case "pause":
		for j := 0; j < int(op.X); j++ {
			zzsim.Yield("h.sub-pause")
		}
	case "crowded-sub":
		// a subscription attempted while its connection is crowded with more
		// calls than the server queues for one connection: the registration
		// may be refused ("consumer blocked") - the subscriber is then not
		// acknowledged and owed nothing; whoever subscribes afterwards is
		conn := int(op.Y) % nConn
		if c.P("share_proxy", 0) == 0 && as.proxies[conn] == nil {
			// (its proxy is made while the connection is still quiet)
			q, err := ProbeProxy(clients[conn], st.w.ServiceID, 1)
			if err != nil {
				env.Violate("setup/proxy", "%v", err)
				return false
			}
			as.proxies[conn] = q
		}
		var cw sync.WaitGroup
		for k := 0; k < 26; k++ {
			cw.Add(1)
			go func(k int) {
				defer cw.Done()
				shared[conn].Slow(probe.Token{Client: int32(a), Seq: int32(k), Text: "crowd"})
			}(k)
		}
		for j := 0; j < 20+int(op.X)*15; j++ {
			zzsim.Yield("h.crowd")
		}
		op.Kind = "sub"
		ok := as.do(c, env, st, op, clients, shared)
		cw.Wait()
		env.Probe("subscriptions-attempted-on-a-crowded-connection")
		if as.cur == nil {
			env.Probe("subscription-refused-on-a-crowded-connection")
		}
		return ok
	case "sub":
		if as.cur != nil {
			return true
		}
		conn := int(op.Y) % nConn
		p := shared[conn]
		if c.P("share_proxy", 0) == 0 {
			if as.proxies[conn] == nil {
				q, err := ProbeProxy(clients[conn], st.w.ServiceID, 1)
				if err != nil {
					env.Violate("setup/proxy", "%v", err)
					return false
				}
				as.proxies[conn] = q
			}
			p = as.proxies[conn]
		}
		rec := &c13sub{sub: a, sig: int(op.X) % 4, conn: conn}
		if c.P("ctx_subs", 0) == 1 && a == 0 {
			ctx, cancelCtx := context.WithCancel(context.Background())
			p = p.WithContext(ctx)
			as.ctxCancel = cancelCtx
			env.Probe("subscriptions-through-a-proxy-bound-to-a-context")
		}
		if c.P("ctx_subs", 0) == 2 && a == 0 {
			ctx, cancelCtx := context.WithCancel(context.Background())
			p = p.WithContext(ctx)
			delay := c.P("ctx_giveup_delay", 0)
			go func() {
				for j := 0; j < delay; j++ {
					zzsim.Yield("h.ctx-giveup")
				}
				cancelCtx()
			}()
			env.Probe("contexts-given-up-while-the-subscription-is-made")
		}
		h := env.Invoke(a, "subscribe", fmt.Sprintf("sig%d conn%d", rec.sig, conn))
		var ch chan int32
		var err error
		switch rec.sig {
		case 0:
			as.cancel, ch, err = p.SubscribeTick()
		case 1:
			as.cancel, ch, err = p.SubscribeTock()
		case 2:
			as.cancel, ch, err = p.SubscribeLevel()
		default:
			var texts chan string
			as.cancel, texts, err = p.SubscribeNote()
			if err == nil {
				ch = make(chan int32)
				go func(out chan int32) {
					for s := range texts {
						out <- c13noteVal(s)
					}
					close(out)
				}(ch)
			}
		}
		env.Return(h, "", err)
		rec.ackCall, rec.ackRet, rec.err = h.Call, h.Ret, err
		st.mu.Lock()
		st.subs = append(st.subs, rec)
		st.mu.Unlock()
		if err != nil {
			return true
		}
		as.cur = rec
		go func(rec *c13sub, ch chan int32) {
			for v := range ch {
				seq := zzsim.Seq()
				st.mu.Lock()
				rec.evs = append(rec.evs, c13ev{v, seq})
				st.mu.Unlock()
				zzsim.Event("recv sub%d %d", rec.sub, v)
			}
			seq := zzsim.Seq()
			st.mu.Lock()
			rec.closedSeq = seq
			st.mu.Unlock()
		}(rec, ch)
	case "cancel":
		if as.cur == nil {
			return true
		}
		h := env.Invoke(a, "cancel", fmt.Sprintf("sig%d", as.cur.sig))
		st.mu.Lock()
		as.cur.cancelCall = h.Call
		st.mu.Unlock()
		if as.ctxCancel != nil {
			as.ctxCancel()
			as.ctxCancel = nil
		}
		as.cancel()
		env.Return(h, "", nil)
		st.mu.Lock()
		as.cur.cancelRet = h.Ret
		st.mu.Unlock()
		as.cur = nil
	}
	return true
}

// c13overlappingLocalOps tells whether two subscribe / cancel operations of
// local subscribers of (connection, signal) overlapped in time, one of them at
// least a cancel (subscriptions alone share the count atomically: whoever
// brings it to one registers, nobody else does).
func c13overlappingLocalOps(subs []*c13sub, conn, sig int) bool {
	type iv struct {
		a, b   int64
		cancel bool
	}
	var ivs []iv
	const inf = int64(1) << 62
	for _, s := range subs {
		if s.conn != conn || s.sig != sig {
			continue
		}
		if s.ackCall != 0 {
			b := s.ackRet
			if b == 0 {
				b = inf
			}
			ivs = append(ivs, iv{s.ackCall, b, false})
		}
		if s.cancelCall != 0 {
			b := s.cancelRet
			if b == 0 {
				b = inf
			}
			ivs = append(ivs, iv{s.cancelCall, b, true})
		}
	}
	for i, x := range ivs {
		for _, y := range ivs[i+1:] {
			if x.a < y.b && y.a < x.b && (x.cancel || y.cancel) {
				return true
			}
		}
	}
	return false
}

func c13seqOf(marks []simnet.Mark, end int) int64 {
	for _, m := range marks {
		if m.Off >= end {
			return m.Seq
		}
	}
	return 1 << 62
}

func (c13) Check(c *core.Case, env *core.Env, res zzsim.Result, v *core.Verdict) {
	st, _ := env.Get("st").(*c13state)
	if st == nil || st.w == nil {
		return
	}
	prefix := "C13/"
	if c.P("sequential", 0) == 1 {
		// nothing overlapped in this run: no race can be the cause
		prefix = "C13/sequential/"
	}
	bad := func(class, format string, args ...interface{}) {
		v.Violations = append(v.Violations, core.Violation{Class: prefix + class, Detail: fmt.Sprintf(format, args...)})
	}
	hs := env.History()
	for _, h := range hs {
		if h.Ret == 0 {
			bad("hang/"+h.Kind, "operation never returned: %s", h)
		} else {
			v.OpsDone++
		}
	}
	if !res.Quiescent {
		return
	}
	const inf = int64(1) << 62
	emitted := [4]map[int32]c13emit{{}, {}, {}, {}}
	for _, e := range st.emits {
		emitted[e.sig][e.n] = e
		if e.err != nil && strings.Contains(e.err.Error(), "victim-broken") {
			// the emitter is told that one subscriber could not be reached
			env.Probe("emit-reported-the-unreachable-subscriber")
		} else if e.err != nil {
			bad("emit-error", "emitting sig%d n=%d failed: %v", e.sig, e.n, e.err)
		}
	}

	// --- the wire, per client connection --------------------------------
	type regReq struct {
		reqSeq     int64 // request written by the client
		replyRead  int64 // reply consumed by the client's reader
		replyWrite int64
		ok         bool
	}
	type connWire struct {
		regs      [4][]regReq
		unregs    [4][]int64         // unregister requests: seq at which the client wrote them
		lateEvent [4]map[int32]int64 // event n -> seq of the unregister ack it followed
		evCount   [4]map[int32]int   // how often event n was sent on this connection
		evRegs    [4]map[int32]int   // registrations of the signal on the connection when it was sent (max)
		evAt      [4]map[int32][]int64
		unregAcks [4][]int64 // unregister acknowledgements: seq at which the server wrote them
	}
	wires := map[int]*connWire{}
	conns := env.NW.Conns()
	for ci, pair := range st.pairs {
		if pair >= len(conns) {
			continue
		}
		cw := &connWire{lateEvent: [4]map[int32]int64{{}, {}, {}, {}}, evCount: [4]map[int32]int{{}, {}, {}, {}}, evRegs: [4]map[int32]int{{}, {}, {}, {}}, evAt: [4]map[int32][]int64{{}, {}, {}, {}}}
		wires[ci] = cw
		cc := conns[pair]
		c2s, c2sMarks := cc.Sent()
		s2c, s2cMarks := cc.Peer().Sent()
		s2cRead := cc.ReadMarks()
		reqs, _, err1 := ref.ParseStream(c2s)
		resps, _, err2 := ref.ParseStream(s2c)
		if err1 != nil || err2 != nil {
			bad("stream-corrupt", "connection %d: %v %v", ci, err1, err2)
			continue
		}
		type req struct {
			register bool
			sig      uint32
			idx      int
		}
		byID := map[uint32]req{}
		for _, f := range reqs {
			if f.Type == ref.Call && f.Service == st.w.ServiceID && f.Object == 1 && (f.Action == 0 || f.Action == 1) && len(f.Payload) >= 8 {
				rd := ref.Rd{B: f.Payload}
				rd.U32()
				sig := rd.U32()
				i, known := c13index(sig)
				if !known {
					continue
				}
				rq := req{f.Action == 0, sig, -1}
				if f.Action == 0 {
					rq.idx = len(cw.regs[i])
					cw.regs[i] = append(cw.regs[i], regReq{reqSeq: c13seqOf(c2sMarks, f.End), replyRead: inf, replyWrite: inf})
				} else {
					cw.unregs[i] = append(cw.unregs[i], c13seqOf(c2sMarks, f.End))
				}
				byID[f.ID] = rq
			}
		}
		count := [4]int{}
		zeroAt := [4]int64{0, 0, 0, 0} // seq at which the last unregister ack was written
		for _, f := range resps {
			rq, known := byID[f.ID]
			switch {
			case (f.Type == ref.Reply || f.Type == ref.Error) && known && rq.sig != 0:
				i, _ := c13index(rq.sig)
				if rq.register {
					r := &cw.regs[i][rq.idx]
					r.replyWrite = c13seqOf(s2cMarks, f.End)
					r.replyRead = c13seqOf(s2cRead, f.End)
					r.ok = f.Type == ref.Reply
					if r.ok {
						count[i]++
						zeroAt[i] = 0
					}
				} else if f.Type == ref.Reply {
					cw.unregAcks[i] = append(cw.unregAcks[i], c13seqOf(s2cMarks, f.End))
					count[i]--
					if count[i] == 0 {
						zeroAt[i] = c13seqOf(s2cMarks, f.End)
					}
				}
			case f.Type == ref.Event && f.Service == st.w.ServiceID && f.Object == 1 && (f.Action == SigTick || f.Action == SigTock || f.Action == PropLvl || f.Action == SigNote):
				i, _ := c13index(f.Action)
				if wv, ok := c13wireVal(f); ok {
					_, n := c13decode(wv)
					cw.evCount[i][n]++
					// registrations acknowledged so far plus requests on their way
					regs := count[i]
					at := c13seqOf(s2cMarks, f.End)
					for _, r := range cw.regs[i] {
						if r.reqSeq < at && r.replyWrite > at {
							regs++
						}
					}
					if regs > cw.evRegs[i][n] {
						cw.evRegs[i][n] = regs
					}
					cw.evAt[i][n] = append(cw.evAt[i][n], at)
				}
				wv, wok := c13wireVal(f)
				if zeroAt[i] == 0 || !wok {
					continue
				}
				evSeq := c13seqOf(s2cMarks, f.End)
				// unless a registration request was on its way (written by the
				// client, not yet answered): the server may already have
				// processed it
				pendingReg := false
				for _, r := range cw.regs[i] {
					if r.reqSeq < evSeq && r.replyWrite > evSeq {
						pendingReg = true
					}
				}
				if pendingReg {
					continue
				}
				_, n := c13decode(wv)
				cw.lateEvent[i][n] = zeroAt[i]
				e, ok := emitted[i][n]
				if ok && e.start < zeroAt[i] {
					// the emission was already under way when the removal was acknowledged
					bad("event-after-unregister-ack/emission-raced-removal", "connection %d: event %d of signal %d (emitted [%d..%d]) was sent at %d, after the server acknowledged (at %d) the removal of the connection's last registration", ci, n, f.Action, e.start, e.end, evSeq, zeroAt[i])
				} else {
					bad("event-after-unregister-ack/emitted-after-ack", "connection %d: event %d of signal %d, emitted after the server acknowledged (at %d) the removal of the connection's last registration, was still sent (at %d)", ci, n, f.Action, zeroAt[i], evSeq)
				}
			}
		}
	}

	// --- the subscribers of the twin service: its events, nothing else -----
	for i := range st.twinSent {
		if fmt.Sprint(st.twinSent[i]) != fmt.Sprint(st.twinGot[i]) {
			bad("twin-service/not-its-own-events", "the subscriber of signal %d of the twin service (same connection, same object and signal ids, other service) received %v; that service emitted %v", i, st.twinGot[i], st.twinSent[i])
		}
	}
	// --- each subscription interval ---------------------------------------
	for _, s := range st.subs {
		name := fmt.Sprintf("subscriber %d (sig%d, connection %d, subscribed [%d..%d], cancel [%d..%d])", s.sub, s.sig, s.conn, s.ackCall, s.ackRet, s.cancelCall, s.cancelRet)
		if s.err != nil {
			if s.sub == 40 && strings.Contains(s.err.Error(), "consumer blocked") {
				// refused on a crowded connection, and said so: owed nothing
				continue
			}
			if c.P("ctx_subs", 0) == 2 && s.sub == 0 && strings.Contains(s.err.Error(), "ancel") {
				// given up by its own context while it was being made
				env.Probe("subscriptions-given-up-while-they-were-made")
				continue
			}
			bad("subscribe-error", "%s: subscription failed: %v", name, s.err)
			continue
		}
		cw := wires[s.conn]
		got := map[int32]bool{}
		var prev int32
		first := true
		for _, ev := range s.evs {
			if ev.val == -1<<31 {
				bad("payload-altered", "%s received a note whose text is not the one that was emitted", name)
				continue
			}
			sig, n := c13decode(ev.val)
			if sig != s.sig {
				bad("foreign-signal", "%s received %d, an event of the other signal", name, ev.val)
				continue
			}
			e, ok := emitted[sig][n]
			if !ok || e.start > ev.seq {
				bad("phantom-event", "%s received %d which was not emitted (before)", name, ev.val)
				continue
			}
			if e.end < s.ackCall {
				// An event still in flight when the subscription was requested
				// (its emission ended before). The statement bounds what a
				// subscriber must receive, not this: counted, not judged.
				if cw != nil && cw.lateEvent[sig][n] != 0 {
					env.Probe("stale-event-sent-after-unregister-ack")
				} else {
					env.Probe("event-in-flight-at-subscription")
				}
				continue
			}
			if got[n] {
				// could two registrations of the signal have been active on this
				// connection while the event was being emitted? (requested before
				// the emission ended, not acknowledged as removed before it began)
				maxRegs := 0
				if cw != nil {
					for _, r := range cw.regs[sig] {
						if r.reqSeq < e.end {
							maxRegs++
						}
					}
					for _, a := range cw.unregAcks[sig] {
						if a < e.start {
							maxRegs--
						}
					}
				}
				if cw != nil && cw.evCount[sig][n] > 1 && maxRegs < 2 {
					bad("duplicate/sent-twice-with-one-registration", "%s received event %d twice: the server sent it %d times on this connection although at most one registration of the signal was active there: %v\n  registrations (request written, reply written, reply read, ok): %v\n  unregister requests written at: %v; event written at: %v", name, n, cw.evCount[sig][n], s.evs, cw.regs[sig], cw.unregs[sig], cw.evAt[sig][n])
				} else if cw != nil && cw.evCount[sig][n] > 1 && !c13overlappingLocalOps(st.subs, s.conn, sig) {
					// two registrations at once are explained by the known
					// defect of the shared registration count only when
					// subscribe / cancel operations of local subscribers
					// overlapped; here each returned before the next began
					bad("duplicate/two-registrations-without-overlapping-operations", "%s received event %d twice: two registrations of the signal were active on the connection although the subscribe and cancel operations on it never overlapped: %v\n  registrations (request written, reply written, reply read, ok): %v\n  unregister requests written at: %v", name, n, s.evs, cw.regs[sig], cw.unregs[sig])
				} else if cw != nil && cw.evCount[sig][n] > 1 {
					bad("duplicate/sent-twice-on-connection", "%s received event %d twice: the server sent it %d times on this connection (two registrations of the signal were active): %v", name, n, cw.evCount[sig][n], s.evs)
				} else {
					bad("duplicate/other", "%s received event %d twice although it was sent once on the connection: %v", name, n, s.evs)
				}
			}
			got[n] = true
			if !first && n < prev {
				bad("order", "%s received event %d after event %d: %v", name, n, prev, s.evs)
			}
			// a gap is a missed event: reported below with its cause
			first = false
			prev = n
			if s.cancelRet != 0 && e.start > s.cancelRet {
				// the fan-out goroutine may still forward what is queued until
				// it notices the cancellation: counted, not judged
				env.Probe("event-after-cancel-returned")
			}
		}
		// What must have been received. Events are delivered in emission
		// order, so: everything emitted after the acknowledgement and before
		// a received event; and,
		// for a subscriber that never asked to cancel, everything emitted
		// after the acknowledgement (the run ends at quiescence). Events still
		// in flight when a subscriber asks to cancel are not demanded.
		// Nothing is promised about events emitted after the request to
		// cancel: they are left out on both sides of the comparison.
		var minG, maxG int32
		for n := range got {
			if e := emitted[s.sig][n]; s.cancelCall != 0 && e.end > s.cancelCall {
				continue
			}
			if minG == 0 || n < minG {
				minG = n
			}
			if n > maxG {
				maxG = n
			}
		}
		for n, e := range emitted[s.sig] {
			if (e.err != nil && !strings.Contains(e.err.Error(), "victim-broken")) || got[n] || (s.cancelCall != 0 && e.end > s.cancelCall) {
				continue
			}
			demanded := false
			switch {
			case e.start > s.ackRet && n < maxG:
				demanded = true
			case e.start > s.ackRet && s.cancelCall == 0:
				demanded = true
			}
			if !demanded {
				continue
			}
			// was the registration this subscriber relies on confirmed when it was acknowledged?
			cause := "other"
			if cw != nil {
				// registrations confirmed to the client minus removals it
				// had requested, at the moment the subscriber was acknowledged
				active := 0
				for _, r := range cw.regs[s.sig] {
					if r.ok && r.replyRead < s.ackRet {
						active++
					}
				}
				for _, u := range cw.unregs[s.sig] {
					if u < s.ackRet {
						active--
					}
				}
				if active < 1 {
					cause = "acked-before-registered"
				}
				// The same defect seen from the other side: when this
				// subscriber was acknowledged, another local subscriber of the
				// same (connection, signal) was in the first-subscriber path
				// (its subscribe overlapped the acknowledgement) with a
				// registerEvent not yet answered - the registration confirmed
				// at that moment was the previous one, whose removal a
				// concurrent cancel had already decided. The event was emitted
				// before that registerEvent was answered, and at some moment
				// of its emission the client held no confirmed registration
				// it had not asked to remove. (Any event frame on the
				// connection reaches every local subscriber of the signal, so
				// a miss means the server had no registration at all.)
				if cause == "other" {
					pendingFirst := false
					for _, r := range cw.regs[s.sig] {
						if (r.replyRead != 0 && r.replyRead < s.ackRet) || (r.replyRead != 0 && r.replyRead < e.start) {
							continue
						}
						for _, s2 := range st.subs {
							if s2 != s && s2.conn == s.conn && s2.sig == s.sig && s2.ackCall != 0 && s2.ackCall < s.ackRet &&
								(s2.ackRet == 0 || s2.ackRet > s.ackRet) && s2.ackCall <= r.reqSeq && (s2.ackRet == 0 || r.reqSeq <= s2.ackRet) {
								pendingFirst = true
							}
						}
					}
					atEvent := 0
					for _, r := range cw.regs[s.sig] {
						if r.ok && r.replyRead != 0 && r.replyRead < e.start {
							atEvent++
						}
					}
					for _, u := range cw.unregs[s.sig] {
						// a removal requested while the event was being
						// emitted may have been carried out before the
						// emitter looked at the subscriber table
						if u < e.end {
							atEvent--
						}
					}
					if pendingFirst && atEvent < 1 {
						cause = "acked-before-registered"
						env.Probe("acked-while-first-subscriber-was-registering")
					}
				}
			}
			detail := ""
			if cw != nil {
				detail = fmt.Sprintf("\n  registrations of the signal on the connection (request written, reply read, reply written, ok): %v\n  unregister requests written at %v, acknowledged (written) at %v\n  local subscribers of the same (connection, signal):", cw.regs[s.sig], cw.unregs[s.sig], cw.unregAcks[s.sig])
				for _, s2 := range st.subs {
					if s2.conn == s.conn && s2.sig == s.sig {
						detail += fmt.Sprintf(" #%d sub[%d..%d] cancel[%d..%d]", s2.sub, s2.ackCall, s2.ackRet, s2.cancelCall, s2.cancelRet)
					}
				}
			}
			bad("missed-event/"+cause, "%s did not receive event %d (emitted [%d..%d]); received %v%s", name, n, e.start, e.end, s.evs, detail)
			break
		}
		if s.cancelRet != 0 && s.closedSeq == 0 {
			bad("channel-not-closed", "%s: the channel was not closed after cancel", name)
		}
		if s.cancelRet == 0 && s.closedSeq != 0 {
			bad("channel-closed-early", "%s: the channel was closed although the subscriber never cancelled", name)
		}
		if len(s.evs) > 0 {
			env.Probe("subscriptions-with-events")
		}
	}
	ov := overlapping(hs)
	env.ProbeN("overlapping-op-pairs", ov)
	v.Nontrivial = (ov > 0 || c.P("sequential", 0) == 1) && v.Stats.Switches > 0
}
