package scen

import (
	"fmt"
	"math/rand/v2"
	"sort"
	"strconv"
	"strings"
	"sync"
	"time"

	"github.com/anishathalye/porcupine"
	"github.com/lugu/qiloop/bus"
	"github.com/lugu/qiloop/bus/directory"
	"github.com/lugu/qiloop/bus/services"
	"github.com/lugu/qiloop/bus/util"
	"github.com/lugu/qiloop/type/object"
	probe "github.com/lugu/qiloop/zzprobe"

	"qsimharness/core"
	"qsimharness/ref"
	"zzsim"
)

// C15: the service directory is a linearizable registry (remote clients and
// the hosting server together), with strictly increasing identifiers, unique
// names, visibility from ready to unregister, and exactly one added/removed
// event per transition.
type c15 struct{}

func init() { core.Register("C15", func() core.Scenario { return c15{} }) }

// the name of the directory itself is in the universe: a name like any other
// once the entry of the directory has been unregistered
var c15names = []string{"A", "B", "C", "A", "B", "C", "ServiceDirectory"}

func (c15) Gen(r *rand.Rand, tier string, run int) *core.Case {
	c := &core.Case{Prop: "C15", Params: map[string]int{}}
	c.Sim = baseSim(r, []string{"bus/directory/directory.go", "bus/server.go"})
	if c.Sim.MeanGap == 0 || c.Sim.MeanGap > 200 {
		c.Sim.MeanGap = []int{10, 30, 80}[r.IntN(3)]
	}
	c.Sim.HotFiles = []string{"bus/directory/directory.go", "bus/server.go"}
	c.Sim.HotWeight = []int{1, 5, 20}[r.IntN(3)]
	c.Net = baseNet(r)
	if c.Net.ReadMode == "tiny" {
		c.Net.ReadMode = "random"
	}
	c.Params["unregister_directory"] = r.IntN(2)
	if r.IntN(4) == 0 {
		c.Params["broken"] = 1
		c.Params["break_after"] = r.IntN(120)
	}
	// sub-batches: purely sequential conformance (one client, longer
	// sequences, compared step by step) and concurrent histories
	if r.IntN(4) == 0 {
		c.Batch = "sequential"
		c.Params["clients"] = 1
		n := 6 + r.IntN(20)
		for i := 0; i < n; i++ {
			c.Ops = append(c.Ops, c15op(r, 0, false))
		}
		return c
	}
	c.Batch = "concurrent"
	clients := 2 + r.IntN(2)
	c.Params["clients"] = clients
	if r.IntN(6) == 0 {
		// a baton handed over: the hosting process always has the next
		// service ready before it terminates the previous one, while remote
		// clients list the services. Every listing is the content of the
		// registry at one moment: it names one of the two at least
		c.Batch = "hand-over"
		clients = 2
		c.Params["clients"] = 2
		c.Params["unregister_directory"] = 0
		pad := r.IntN(3)
		for i := 0; i < pad; i++ {
			// entries nobody touches afterwards make the listing longer
			c.Ops = append(c.Ops, core.Op{Kind: "register", Actor: 0, S: fmt.Sprintf("P%d", i)}, core.Op{Kind: "ready", Actor: 0, X: int64(i)})
		}
		for k := 0; k < 2; k++ {
			for i := 0; i < 2+r.IntN(2); i++ {
				c.Ops = append(c.Ops, core.Op{Kind: "list", Actor: k})
			}
		}
		rounds := 2 + r.IntN(2)
		if pad == 0 {
			rounds = 3
		}
		c.Ops = append(c.Ops, core.Op{Kind: "newservice", Actor: 70, S: c15names[0]})
		for i := 1; i <= rounds; i++ {
			c.Ops = append(c.Ops, core.Op{Kind: "newservice", Actor: 70, S: c15names[i%3]}, core.Op{Kind: "terminate", Actor: 70, X: int64(i - 1)})
		}
		return c
	}
	total := 0
	for k := 0; k < clients; k++ {
		n := 2 + r.IntN(4)
		for i := 0; i < n && total < 12; i++ {
			c.Ops = append(c.Ops, c15op(r, k, false))
			total++
		}
	}
	n := 1 + r.IntN(3)
	for i := 0; i < n; i++ {
		c.Ops = append(c.Ops, c15op(r, 70, true))
	}
	if r.IntN(2) == 0 {
		// a second goroutine of the hosting process registers services too,
		// often under the name the first one is registering
		for i := 0; i < 1+r.IntN(2); i++ {
			op := c15op(r, 71, true)
			if op.Kind == "newservice" && r.IntN(2) == 0 {
				for _, o := range c.Ops {
					if o.Actor == 70 && o.Kind == "newservice" {
						op.S = o.S
					}
				}
			}
			c.Ops = append(c.Ops, op)
		}
	}
	return c
}

func c15op(r *rand.Rand, actor int, local bool) core.Op {
	if local {
		if r.IntN(3) == 0 {
			return core.Op{Kind: "terminate", Actor: actor, X: int64(r.IntN(3))}
		}
		if r.IntN(3) == 0 {
			return core.Op{Kind: "local-lookup", Actor: actor, S: c15names[r.IntN(len(c15names))]}
		}
		if r.IntN(4) == 0 {
			return core.Op{Kind: "local-object", Actor: actor, X: int64(1 + r.IntN(5))}
		}
		return core.Op{Kind: "newservice", Actor: actor, S: c15names[r.IntN(len(c15names))]}
	}
	switch k := r.IntN(12); {
	case k < 3:
		op := core.Op{Kind: "register", Actor: actor, S: c15names[r.IntN(len(c15names))]}
		if r.IntN(3) == 0 {
			// the request carries an identifier of its own (a record kept
			// from an earlier registration and sent again): Y-1 chooses it
			op.Y = int64(1 + r.IntN(8))
		}
		return op
	case k < 4:
		return core.Op{Kind: "register-invalid", Actor: actor, S: c15names[r.IntN(len(c15names))], X: int64(r.IntN(3))}
	case k < 6:
		return core.Op{Kind: "ready", Actor: actor, X: int64(r.IntN(8))}
	case k < 8:
		return core.Op{Kind: "unregister", Actor: actor, X: int64(r.IntN(8))}
	case k < 9:
		return core.Op{Kind: "update", Actor: actor, X: int64(r.IntN(8)), S: c15names[r.IntN(len(c15names))]}
	case k < 11:
		return core.Op{Kind: "lookup", Actor: actor, S: c15names[r.IntN(len(c15names))]}
	}
	return core.Op{Kind: "list", Actor: actor}
}

type c15event struct {
	added bool
	id    uint32
	name  string
}

type c15state struct {
	mu      sync.Mutex
	events  []c15event
	srv     bus.Server
	subPair int
}

// c15digest is what the model remembers of an info besides name and id.
// The directory's own entry carries this process's machine identifier and
// process number, which no two processes share: they are named, not printed,
// so that a run reads the same in every process.
func c15digest(i services.ServiceInfo) string {
	machine, process := i.MachineId, strconv.FormatUint(uint64(i.ProcessId), 10)
	if machine == util.MachineID() {
		machine = "this-machine"
	}
	if i.ProcessId == util.ProcessID() {
		process = "this-process"
	}
	return fmt.Sprintf("%s/%s/%s/%s/%s", strings.Join(i.Endpoints, "+"), machine, process, i.SessionId, i.ObjectUid)
}

// c15local is what the info of a service hosted by the directory's own server
// carries (and the directory's own entry): the server's address, this machine,
// this process, nothing else.
func c15local() string {
	return c15digest(services.ServiceInfo{Endpoints: []string{ServerAddr}, MachineId: util.MachineID(), ProcessId: util.ProcessID()})
}

func c15info(name string) services.ServiceInfo {
	return services.ServiceInfo{Name: name, MachineId: "m", ProcessId: 77, Endpoints: []string{"tcp://other:1"}, SessionId: "s"}
}

func (c15) Run(c *core.Case, env *core.Env) {
	st := &c15state{}
	env.Set("st", st)
	zzsim.SetNode("server")
	srv, err := directory.NewServer(ServerAddr, bus.Dictionary(map[string]string{"u": "p"}))
	zzsim.SetNode("harness")
	if err != nil {
		env.Violate("harness/setup", "%v", err)
		return
	}
	st.srv = srv
	mk := func(node string) (services.ServiceDirectoryProxy, error) {
		cl, err := Connect(node, "u", "p")
		if err != nil {
			return nil, err
		}
		meta, err := bus.GetMetaObject(cl, 1, 1)
		if err != nil {
			return nil, err
		}
		return services.MakeServiceDirectory(nil, bus.NewProxy(cl, meta, 1, 1)), nil
	}
	if c.P("broken", 0) == 1 {
		// one more subscriber of the directory's signals, registered first,
		// which becomes unreachable at some moment: registrations, their
		// answers and what the other subscriber sees must not depend on it
		vconn := len(env.NW.Conns())
		victim, err := mk("victim")
		if err != nil {
			env.Violate("setup/connect", "%v", err)
			return
		}
		_, va, e1 := victim.SubscribeServiceAdded()
		_, vr, e2 := victim.SubscribeServiceRemoved()
		if e1 != nil || e2 != nil {
			env.Violate("setup/subscribe", "%v %v", e1, e2)
			return
		}
		go func() {
			for range va {
			}
		}()
		go func() {
			for range vr {
			}
		}()
		BreakWritesLater(env, env.NW.Conns()[vconn], c.P("break_after", 0))
	}
	// a subscriber for the whole run
	st.subPair = len(env.NW.Conns())
	sub, err := mk("subscriber")
	if err != nil {
		env.Violate("setup/connect", "%v", err)
		return
	}
	_, added, err := sub.SubscribeServiceAdded()
	if err != nil {
		env.Violate("setup/subscribe", "%v", err)
		return
	}
	_, removed, err := sub.SubscribeServiceRemoved()
	if err != nil {
		env.Violate("setup/subscribe", "%v", err)
		return
	}
	go func() {
		for e := range added {
			st.mu.Lock()
			st.events = append(st.events, c15event{true, e.ServiceID, e.Name})
			st.mu.Unlock()
		}
	}()
	go func() {
		for e := range removed {
			st.mu.Lock()
			st.events = append(st.events, c15event{false, e.ServiceID, e.Name})
			st.mu.Unlock()
		}
	}()
	nClients := c.P("clients", 1)
	proxies := make([]services.ServiceDirectoryProxy, nClients)
	for i := range proxies {
		if proxies[i], err = mk(fmt.Sprintf("client%d", i)); err != nil {
			env.Violate("setup/connect", "%v", err)
			return
		}
	}
	env.S.Quiesce()
	by := map[int][]core.Op{}
	var actors []int
	for _, op := range c.Ops {
		if _, ok := by[op.Actor]; !ok {
			actors = append(actors, op.Actor)
		}
		by[op.Actor] = append(by[op.Actor], op)
	}
	var wg sync.WaitGroup
	for _, a := range actors {
		wg.Add(1)
		go func(a int) {
			defer wg.Done()
			var mine []uint32 // ids this actor obtained
			var local []bus.Service
			pickID := func(x int64) uint32 {
				if x < 4 && len(mine) > 0 {
					return mine[int(x)%len(mine)]
				}
				return uint32(x) // small ids: the directory itself is 1
			}
			for i, op := range by[a] {
				switch op.Kind {
				case "newservice":
					zzsim.SetNode("server")
					h := env.Invoke(a, "newservice", op.S)
					svc, err := srv.NewService(op.S, probe.ProbeObject(&ProbeImpl{Env: env, Obj: 9}))
					out := ""
					if err == nil {
						out = fmt.Sprint(svc.ServiceID())
						local = append(local, svc)
					}
					env.Return(h, out, err)
				case "local-lookup":
					// the hosting process looks a service up through its own
					// session (namespace of the directory, no connection):
					// visible or not is all it can tell
					zzsim.SetNode("server")
					h := env.Invoke(a, "local-lookup", op.S)
					_, err := srv.Session().Proxy(op.S, 1)
					if err != nil && !strings.Contains(err.Error(), "service not found") {
						err = nil // found, but not reachable from here: visible all the same
					}
					env.Return(h, "", err)
				case "local-object":
					// the hosting process asks its own session for an object
					// by identifier (the answer is not judged: the path is
					// there for what it reads while others write)
					zzsim.SetNode("server")
					srv.Session().Object(object.ObjectReference{ServiceID: uint32(op.X), ObjectID: 1})
					env.Probe("local-object-requests")
				case "terminate":
					if len(local) == 0 {
						continue
					}
					svc := local[int(op.X)%len(local)]
					zzsim.SetNode("server")
					h := env.Invoke(a, "terminate", fmt.Sprint(svc.ServiceID()))
					err := svc.Terminate()
					env.Return(h, "", err)
				case "register", "register-invalid":
					p := proxies[a]
					info := c15info(op.S)
					if op.Kind == "register-invalid" {
						switch op.X {
						case 0:
							info.Endpoints = nil
						case 1:
							info.MachineId = ""
						default:
							info.ProcessId = 0
						}
					}
					if op.Kind == "register" && op.Y > 0 {
						// the identifier field of a request is the directory's to
						// fill in: whatever the client left there (an identifier
						// it was given before, one of somebody else) is ignored
						info.ServiceId = pickID(op.Y - 1)
						env.Probe("registrations-carrying-an-identifier")
					}
					h := env.Invoke(a, op.Kind, op.S)
					id, err := p.RegisterService(info)
					out := ""
					if err == nil {
						out = fmt.Sprint(id)
						mine = append(mine, id)
					}
					env.Return(h, out, err)
				case "ready":
					id := pickID(op.X)
					h := env.Invoke(a, "ready", fmt.Sprint(id))
					err := proxies[a].ServiceReady(id)
					env.Return(h, "", err)
				case "unregister":
					id := pickID(op.X)
					if id == 1 && c.P("unregister_directory", 0) == 0 {
						continue // (most runs) the entry of the directory itself stays
					}
					h := env.Invoke(a, "unregister", fmt.Sprint(id))
					err := proxies[a].UnregisterService(id)
					env.Return(h, "", err)
				case "update":
					id := pickID(op.X)
					info := c15info(op.S)
					info.ServiceId = id
					// every update writes an info nobody else writes
					u := 1000 + a*100 + i
					info.Endpoints = []string{fmt.Sprintf("tcp://moved:%d", u)}
					info.MachineId = fmt.Sprintf("m%d", u)
					info.ProcessId = uint32(u)
					info.SessionId = fmt.Sprintf("s%d", u)
					ep := c15digest(info)
					h := env.Invoke(a, "update", fmt.Sprintf("%d %s %s", id, op.S, ep))
					err := proxies[a].UpdateServiceInfo(info)
					env.Return(h, "", err)
				case "lookup":
					h := env.Invoke(a, "lookup", op.S)
					info, err := proxies[a].Service(op.S)
					out := ""
					if err == nil {
						out = fmt.Sprintf("%d:%s@%s", info.ServiceId, info.Name, c15digest(info))
					}
					env.Return(h, out, err)
				case "list":
					h := env.Invoke(a, "list", "")
					l, err := proxies[a].Services()
					var parts []string
					for _, i := range l {
						parts = append(parts, fmt.Sprintf("%d:%s@%s", i.ServiceId, i.Name, c15digest(i)))
					}
					sort.Strings(parts)
					env.Return(h, strings.Join(parts, ","), err)
				}
			}
		}(a)
	}
	wg.Wait()
}

// --- the sequential registry model ------------------------------------------

type c15reg struct {
	staging map[uint32]string
	ready   map[uint32]string
	maxID   uint32
	// ep is the endpoint an entry's info carries: what register gave, then
	// what the last accepted update gave (c15local: set by the hosting server)
	ep map[uint32]string
}

func (s c15reg) clone() c15reg {
	n := c15reg{map[uint32]string{}, map[uint32]string{}, s.maxID, map[uint32]string{}}
	for k, v := range s.ep {
		n.ep[k] = v
	}
	for k, v := range s.staging {
		n.staging[k] = v
	}
	for k, v := range s.ready {
		n.ready[k] = v
	}
	return n
}

func (s c15reg) key() string {
	var parts []string
	for k, v := range s.staging {
		parts = append(parts, fmt.Sprintf("s%d:%s@%s", k, v, s.ep[k]))
	}
	for k, v := range s.ready {
		parts = append(parts, fmt.Sprintf("r%d:%s@%s", k, v, s.ep[k]))
	}
	sort.Strings(parts)
	return fmt.Sprintf("%d|%s", s.maxID, strings.Join(parts, ","))
}

func (s c15reg) held(name string) bool {
	for _, v := range s.staging {
		if v == name {
			return true
		}
	}
	for _, v := range s.ready {
		if v == name {
			return true
		}
	}
	return false
}

// matches tells whether an observed listing ("id:name@endpoint,...", sorted)
// is the set of ready services with the endpoints their infos must carry.
func (s c15reg) matches(observed string) bool {
	var parts []string
	if observed != "" {
		parts = strings.Split(observed, ",")
	}
	if len(parts) != len(s.ready) {
		return false
	}
	for _, p := range parts {
		idname, ep, _ := strings.Cut(p, "@")
		var id uint32
		var name string
		if n, _ := fmt.Sscanf(strings.Replace(idname, ":", " ", 1), "%d %s", &id, &name); n != 2 {
			return false
		}
		if want, ok := s.ready[id]; !ok || want != name {
			return false
		}
		if e := s.ep[id]; e != ep {
			return false
		}
	}
	return true
}

type c15in struct {
	op   string
	name string
	id   uint32
	ep   string
}

type c15out struct {
	ok  bool
	out string
}

// c15step validates one observed outcome against the state; where the
// statement leaves freedom the outcome is accepted as observed.
func c15step(s c15reg, in c15in, out c15out) (bool, c15reg) {
	switch in.op {
	case "register":
		if s.held(in.name) {
			return !out.ok, s
		}
		if !out.ok {
			return false, s
		}
		var id uint32
		fmt.Sscan(out.out, &id)
		if id <= s.maxID { // identifiers strictly increasing, never reused
			return false, s
		}
		n := s.clone()
		n.maxID = id
		n.staging[id] = in.name
		n.ep[id] = in.ep
		return true, n
	case "register-invalid":
		return !out.ok, s
	case "ready":
		name, ok := s.staging[in.id]
		if !ok {
			return !out.ok, s
		}
		if !out.ok {
			return false, s
		}
		n := s.clone()
		delete(n.staging, in.id)
		n.ready[in.id] = name
		return true, n
	case "unregister":
		_, st := s.staging[in.id]
		_, rd := s.ready[in.id]
		if !st && !rd {
			return !out.ok, s
		}
		if !out.ok {
			return false, s
		}
		n := s.clone()
		delete(n.staging, in.id)
		delete(n.ready, in.id)
		return true, n
	case "terminate": // local: removes the service if it is still there, reports nothing
		n := s.clone()
		delete(n.staging, in.id)
		delete(n.ready, in.id)
		return true, n
	case "update":
		if name, ok := s.ready[in.id]; ok {
			if out.ok != (name == in.name) {
				return false, s
			}
			if !out.ok {
				return true, s
			}
			n := s.clone()
			n.ep[in.id] = in.ep
			return true, n
		}
		if _, ok := s.staging[in.id]; ok {
			// either outcome; an accepted one carries its endpoint along
			if !out.ok {
				return true, s
			}
			n := s.clone()
			n.ep[in.id] = in.ep
			return true, n
		}
		return !out.ok, s
	case "lookup":
		for id, name := range s.ready {
			if name == in.name {
				if !out.ok {
					return false, s
				}
				idname, ep, _ := strings.Cut(out.out, "@")
				return idname == fmt.Sprintf("%d:%s", id, name) && s.ep[id] == ep, s
			}
		}
		return !out.ok, s
	case "local-lookup":
		for _, name := range s.ready {
			if name == in.name {
				return out.ok, s
			}
		}
		return !out.ok, s
	case "list":
		return out.ok && s.matches(out.out), s
	}
	return false, s
}

func (c15) Check(c *core.Case, env *core.Env, res zzsim.Result, v *core.Verdict) {
	hs := env.History()
	for _, h := range hs {
		if h.Ret == 0 {
			v.Violations = append(v.Violations, core.Violation{Class: "C15/hang/" + h.Kind, Detail: "operation never returned: " + h.String()})
		} else {
			v.OpsDone++
		}
	}
	ov := overlapping(hs)
	env.ProbeN("overlapping-op-pairs", ov)
	for i, a := range hs {
		for _, b := range hs[i+1:] {
			if (a.Kind == "newservice") != (b.Kind == "newservice") && a.Ret != 0 && b.Ret != 0 && a.Call < b.Ret && b.Call < a.Ret &&
				(strings.HasPrefix(a.Kind, "register") || strings.HasPrefix(b.Kind, "register")) {
				env.Probe("local-and-remote-register-overlapped")
			}
		}
	}
	v.Nontrivial = (ov > 0 || c.Batch == "sequential") && v.Stats.Switches > 0 && len(hs) >= 2
}

// PostCheck: linearizability against the registry model, then the event ledger.
func (c15) PostCheck(c *core.Case, env *core.Env, v *core.Verdict) {
	st, _ := env.Get("st").(*c15state)
	if st == nil {
		return
	}
	hs := env.History()
	var ops []porcupine.Operation
	for _, h := range hs {
		if h.Ret == 0 {
			return
		}
		in := c15in{op: h.Kind, name: h.Arg}
		switch h.Kind {
		case "newservice":
			// two operations spanning the call: register(name) -> id, ready(id) -> ok
			if !h.OK {
				var id uint32
				if n, _ := fmt.Sscanf(h.Err, "Service id not found: %d", &id); n == 1 {
					// the name was reserved (id) but the entry had been
					// removed by somebody else before it was made ready
					ops = append(ops, porcupine.Operation{ClientId: h.Client, Input: c15in{"register", h.Arg, 0, c15local()}, Call: h.Call, Output: c15out{true, fmt.Sprint(id)}, Return: h.Ret})
					ops = append(ops, porcupine.Operation{ClientId: h.Client + 100, Input: c15in{"ready", "", id, ""}, Call: h.Call, Output: c15out{false, ""}, Return: h.Ret})
					continue
				}
				ops = append(ops, porcupine.Operation{ClientId: h.Client, Input: c15in{"register", h.Arg, 0, c15local()}, Call: h.Call, Output: c15out{false, ""}, Return: h.Ret})
				continue
			}
			var id uint32
			fmt.Sscan(h.Out, &id)
			ops = append(ops, porcupine.Operation{ClientId: h.Client, Input: c15in{"register", h.Arg, 0, c15local()}, Call: h.Call, Output: c15out{true, h.Out}, Return: h.Ret})
			ops = append(ops, porcupine.Operation{ClientId: h.Client + 100, Input: c15in{"ready", "", id, ""}, Call: h.Call, Output: c15out{true, ""}, Return: h.Ret})
			continue
		case "ready", "unregister", "terminate":
			fmt.Sscan(h.Arg, &in.id)
		case "update":
			fmt.Sscanf(h.Arg, "%d %s %s", &in.id, &in.name, &in.ep)
		case "register":
			in.ep = c15digest(c15info(""))
		}
		ops = append(ops, porcupine.Operation{ClientId: h.Client, Input: in, Call: h.Call, Output: c15out{h.OK, h.Out}, Return: h.Ret})
	}
	model := porcupine.Model{
		Init: func() interface{} {
			return c15reg{map[uint32]string{}, map[uint32]string{1: "ServiceDirectory"}, 1, map[uint32]string{1: c15local()}}
		},
		Step: func(state, input, output interface{}) (bool, interface{}) {
			ok, n := c15step(state.(c15reg), input.(c15in), output.(c15out))
			return ok, n
		},
		Equal: func(a, b interface{}) bool { return a.(c15reg).key() == b.(c15reg).key() },
	}
	resLin := porcupine.CheckOperationsTimeout(model, ops, 20*time.Second)
	if resLin == porcupine.Illegal {
		var lines []string
		for _, h := range hs {
			lines = append(lines, h.String())
		}
		class := "C15/not-linearizable"
		if c.Batch == "sequential" {
			class = "C15/sequential-nonconformance"
		}
		v.Violations = append(v.Violations, core.Violation{Class: class, Detail: "no sequential order of the registry operations explains the observed results:\n" + joinLines(lines)})
		return
	}
	if resLin == porcupine.Unknown {
		v.Inconclusive = "porcupine timeout"
		return
	}
	// the event ledger, per service id
	readyOK := map[uint32]*core.Hist{}
	unregOK := map[uint32]*core.Hist{}
	for _, h := range hs {
		var id uint32
		switch h.Kind {
		case "ready":
			fmt.Sscan(h.Arg, &id)
			if h.OK {
				readyOK[id] = h
			}
		case "newservice":
			if h.OK {
				fmt.Sscan(h.Out, &id)
				readyOK[id] = h
			}
		case "unregister":
			fmt.Sscan(h.Arg, &id)
			if h.OK {
				unregOK[id] = h
			}
		}
	}
	// The order of events is taken from the subscriber's connection (the two
	// signals reach the application through two independent channels, whose
	// relative order means nothing); what the application received must be
	// the same events.
	st.mu.Lock()
	received := append([]c15event(nil), st.events...)
	st.mu.Unlock()
	var events []c15event
	if conns := env.NW.Conns(); st.subPair < len(conns) {
		s2c, _ := conns[st.subPair].Peer().Sent()
		frames, _, err := ref.ParseStream(s2c)
		if err != nil {
			v.Violations = append(v.Violations, core.Violation{Class: "C15/stream-corrupt", Detail: err.Error()})
			return
		}
		for _, f := range frames {
			if f.Type == ref.Event && f.Service == 1 && (f.Action == 106 || f.Action == 107) {
				rd := ref.Rd{B: f.Payload}
				e := c15event{added: f.Action == 106, id: rd.U32(), name: rd.Str()}
				if rd.Err == nil {
					events = append(events, e)
				}
			}
		}
	}
	count := func(l []c15event) map[c15event]int {
		m := map[c15event]int{}
		for _, e := range l {
			m[e]++
		}
		return m
	}
	if fmt.Sprint(count(events)) != fmt.Sprint(count(received)) {
		v.Violations = append(v.Violations, core.Violation{Class: "C15/events/received-differs-from-sent",
			Detail: fmt.Sprintf("the subscriber received %v but the server sent it %v", received, events)})
	}
	addedN := map[uint32]int{}
	removedN := map[uint32]int{}
	addedAt := map[uint32]int{}
	bad := func(class, format string, args ...interface{}) {
		v.Violations = append(v.Violations, core.Violation{Class: "C15/" + class, Detail: fmt.Sprintf(format, args...) + fmt.Sprintf("\n  events: %v", events)})
	}
	for i, e := range events {
		if e.added {
			addedN[e.id]++
			addedAt[e.id] = i
		} else {
			removedN[e.id]++
			if addedN[e.id] == 0 && e.id != 1 { // (the directory's own entry was ready before anybody listened)
				bad("events/removed-before-added", "service %d: service-removed event without a preceding service-added event", e.id)
			}
		}
	}
	for id := range addedN {
		if readyOK[id] == nil {
			bad("events/added-without-ready", "service %d: service-added event although no ready operation succeeded", id)
		}
	}
	for id, h := range readyOK {
		if addedN[id] != 1 {
			bad("events/added-not-once", "service %d became ready (%s) and %d service-added events were received", id, h, addedN[id])
		}
		if removedN[id] > 1 {
			bad("events/removed-twice", "service %d: %d service-removed events", id, removedN[id])
		}
		if u := unregOK[id]; u != nil && h.Ret < u.Call && removedN[id] != 1 {
			bad("events/removed-not-once", "service %d was ready and then unregistered (%s) but %d service-removed events were received", id, u, removedN[id])
		}
	}
}
