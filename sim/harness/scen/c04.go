package scen

import (
	"context"
	"fmt"
	"math/rand/v2"
	"strconv"
	"strings"
	"sync"

	"github.com/lugu/qiloop/bus"
	probe "github.com/lugu/qiloop/zzprobe"

	"qsimharness/core"
	"qsimharness/ref"
	"zzsim"
	"zzsim/simnet"
)

// C04: every call gets exactly one answer - its own - and runs its method
// exactly once; posts at most once without response; no other message kind
// runs a method.
type c04 struct{}

func init() { core.Register("C04", func() core.Scenario { return c04{} }) }

// baseSim draws the scheduler configuration shared by the full-system
// scenarios (swarm style: every run gets its own mix).
func baseSim(r *rand.Rand, hot []string) zzsim.Config {
	cfg := zzsim.Config{AuxSeed: r.Uint64(), StepCap: 300000, MaxIdleMs: 3000}
	switch r.IntN(6) {
	case 0:
		cfg.Policy = "uniform"
	case 1, 2:
		cfg.Policy = "sticky"
		cfg.Sticky = []int{50, 80, 95}[r.IntN(3)]
	case 3:
		cfg.Policy = "starve"
	default:
		// priorities with change points: Sticky is the percent chance of a
		// demotion at a decision where the running goroutine could go on
		cfg.Policy = "pct"
		cfg.Sticky = []int{1, 3, 10}[r.IntN(3)]
	}
	cfg.MeanGap = []int{0, 20, 60, 200, 1000}[r.IntN(5)]
	// the order in which the code under test meets the entries of its maps
	cfg.MapOrder = r.IntN(2)
	if len(hot) > 0 && r.IntN(2) == 0 {
		cfg.HotFiles = hot
		cfg.HotWeight = []int{5, 20}[r.IntN(2)]
	}
	return cfg
}

func baseNet(r *rand.Rand) simnet.Config {
	n := simnet.Config{IOYield: r.IntN(4) != 0}
	n.Capacity = []int{0, 0, 64, 512, 65536}[r.IntN(5)]
	n.ReadMode = []string{"greedy", "greedy", "random", "tiny"}[r.IntN(4)]
	return n
}

func (c04) Gen(r *rand.Rand, tier string, run int) *core.Case {
	c := &core.Case{Prop: "C04", Params: map[string]int{}}
	c.Sim = baseSim(r, []string{"bus/client.go", "bus/net/endpoint.go", "bus/mailbox.go"})
	c.Net = baseNet(r)
	nObj := 1 + r.IntN(3)
	nConn := 1 + r.IntN(3)
	callers := 2 + r.IntN(5)
	c.Params["objects"] = nObj
	c.Params["conns"] = nConn
	c.Params["callers"] = callers
	c.Params["raw"] = r.IntN(2)
	if c.Net.ReadMode == "tiny" {
		callers = 2 + r.IntN(2)
		c.Params["callers"] = callers
	}
	// a fault batch: connections may be reset, closed by the server or fail a
	// write in the middle of calls. Calls may then fail; a successful one must
	// still carry its own answer and nothing may run twice.
	if r.IntN(4) == 0 {
		c.Batch = "faults"
		c.Net.FaultGap = []int{30, 80, 200}[r.IntN(3)]
		c.Net.FaultKind = []string{simnet.FReset, simnet.FClosePeer, simnet.FWriteErr}
		c.Net.LateWrite = r.IntN(2) == 0
		c.Params["raw"] = 0
	} else {
		c.Batch = "fault-free"
	}
	kinds := []string{"echo", "echo", "echo", "noarg", "fire", "slow", "cancel-echo", "cancel-noarg"}
	if c.Batch == "fault-free" && r.IntN(5) == 0 {
		// objects hosted by a client and lent to the service: the service
		// calls them back over the lender's connection
		c.Batch = "lent-objects"
		c.Params["lend"] = 1
		if r.IntN(4) == 0 {
			// every lent object gets its identifier from a service reference
			// of its own (Proxy.ProxyService called once per object)
			c.Batch = "lent-objects-own-reference"
			c.Params["lend"] = 2
		}
		c.Params["raw"] = 0
		// the lent objects answer some of the calls with an error of their own
		// (not where the known finding mixes the objects' answers up)
		c.Params["lent_refuses"] = []int{0, 2, 3, 5}[r.IntN(4)]
		if c.Params["lend"] == 2 {
			c.Params["lent_refuses"] = 0
		} else if r.IntN(3) == 0 {
			// one object lent twice: the second object of the service is given
			// the very object the first one was given, by the same client
			c.Batch = "lent-objects-lent-twice"
			c.Params["lend_same"] = 1
			c.Params["lent_refuses"] = 0
		}
		if nObj < 2 {
			nObj = 2
			c.Params["objects"] = 2
		}
		if nConn > 2 {
			nConn = 2
			c.Params["conns"] = 2
		}
		kinds = []string{"relay", "relay", "relay", "echo", "noarg"}
		if c.Params["lend"] == 1 && c.Params["lend_same"] == 0 && r.IntN(3) == 0 {
			// the object lent to the service's first object comes from a
			// client that does nothing else on its connection - no call, no
			// subscription, no other object - and that takes it back at some
			// moment: calls relayed to it afterwards still get one outcome
			c.Params["idle_lender"] = 1
			c.Params["idle_lender_delay"] = r.IntN(400)
			c.Params["lent_refuses"] = 0
		}
	}
	if c.Batch == "fault-free" && r.IntN(6) == 0 {
		// a crowd: more calls in flight than the queues between a connection
		// and an object hold (10 messages each), the method taking time:
		// calls may be shed with an error, never run twice or answered twice
		c.Batch = "crowd"
		callers = 12 + r.IntN(14)
		c.Params["callers"] = callers
		c.Params["slow_ms"] = 1 + r.IntN(3)
		c.Params["crowd"] = 1
		c.Params["spare_delay"] = r.IntN(200)
		if r.IntN(2) == 0 {
			c.Params["doomed_obj"] = r.IntN(nObj)
		}
		kinds = []string{"slow", "slow", "slow", "echo", "fire", "noarg", "cancel-echo"}
	}
	if c.Net.ReadMode != "tiny" && r.IntN(3) == 0 {
		c.Params["big"] = 1
	}
	if c.Batch == "fault-free" && r.IntN(4) == 0 {
		c.Batch = "twin-service"
		c.Params["twin"] = 1
		for k := 0; k < 2+r.IntN(3); k++ {
			conn := r.IntN(nConn)
			for i := 0; i < 1+r.IntN(3); i++ {
				// half of these go to the twin (index nObj), half to the object with the same id of the first service
				c.Ops = append(c.Ops, core.Op{Kind: []string{"echo", "echo", "noarg", "slow", "cancel-echo", "fire"}[r.IntN(6)], Actor: 40 + k, X: int64(conn), Y: int64([]int{0, nObj}[r.IntN(2)]), S: strconv.FormatUint(r.Uint64()>>20, 16)})
			}
		}
	}
	if c.Batch == "fault-free" && r.IntN(5) == 0 {
		// the service also uses an object of its own through the in-process
		// proxy its creation returned (generated Create<Itf>, bus.DirectClient):
		// those calls, posts and cancellations never cross the server's door
		c.Batch = "direct-proxy"
		c.Params["direct"] = 1
		dk := []string{"echo", "echo", "noarg", "fire", "slow", "cancel-echo", "cancel-noarg", "cancel-noarg"}
		for k := 0; k < 2+r.IntN(2); k++ {
			for i := 0; i < 1+r.IntN(4); i++ {
				c.Ops = append(c.Ops, core.Op{Kind: dk[r.IntN(len(dk))], Actor: 70 + k, X: 0, Y: int64(nObj), S: strconv.FormatUint(r.Uint64()>>20, 16)})
			}
		}
	}
	if c.Batch == "fault-free" && r.IntN(6) == 0 {
		// the hosting process calls its own service through the server's
		// session: every goroutine with a proxy of its own, asked from that
		// session, the same methods of the same objects at the same time
		c.Batch = "local-session"
		c.Params["local"] = 1
		lk := []string{"echo", "echo", "echo", "noarg", "slow", "fire"}
		for k := 0; k < 2+r.IntN(3); k++ {
			for i := 0; i < 2+r.IntN(4); i++ {
				c.Ops = append(c.Ops, core.Op{Kind: lk[r.IntN(len(lk))], Actor: 80 + k, X: 0, Y: int64(r.IntN(nObj)), S: strconv.FormatUint(r.Uint64()>>20, 16)})
			}
		}
	}
	if c.Batch == "fault-free" && r.IntN(7) == 0 {
		// a client that keeps its services in a bus.Cache (the session that
		// needs no directory): every goroutine asks the cache for a proxy of
		// its own and they call the same methods of the same objects at once
		c.Batch = "cached-session"
		c.Params["cached"] = 1
		lk := []string{"echo", "echo", "echo", "noarg", "slow", "fire"}
		for k := 0; k < 2+r.IntN(3); k++ {
			for i := 0; i < 2+r.IntN(4); i++ {
				c.Ops = append(c.Ops, core.Op{Kind: lk[r.IntN(len(lk))], Actor: 90 + k, X: 0, Y: int64(r.IntN(nObj)), S: strconv.FormatUint(r.Uint64()>>20, 16)})
			}
		}
	}
	if r.IntN(3) == 0 {
		// the generic object features are calls like any other: statistics
		// and tracing change how an object answers
		kinds = append(kinds, "stats-on", "stats-on", "trace-on", "stats-read")
	}
	for k := 0; k < callers; k++ {
		n := 1 + r.IntN(4)
		if c.Params["crowd"] == 1 {
			n = 1 + r.IntN(2)
		}
		conn := r.IntN(nConn)
		for i := 0; i < n; i++ {
			c.Ops = append(c.Ops, core.Op{Kind: kinds[r.IntN(len(kinds))], Actor: k, X: int64(conn), Y: int64(r.IntN(nObj)), S: strconv.FormatUint(r.Uint64()>>20, 16)})
		}
	}
	if c.Params["crowd"] == 1 && r.IntN(2) == 0 {
		// a raw peer floods one-way messages at a busy object: the queues of
		// its connection overflow; what is shed must be shed silently
		c.Params["raw"] = 2
		n := 30 + r.IntN(40)
		for i := 0; i < n; i++ {
			typ := ref.Post
			if r.IntN(6) == 0 {
				typ = []int{ref.Cancel, ref.Capability, ref.Event, ref.Reply, ref.Error}[r.IntN(5)]
			}
			c.Ops = append(c.Ops, core.Op{Kind: "raw", Actor: 100, X: int64(typ), Y: int64([]int{ActSlow, ActSlow, ActFire}[r.IntN(3)]), S: "valid"})
		}
	}
	if c.Params["lend"] == 1 && r.IntN(2) == 0 {
		// two peers of another kind (they number their messages themselves,
		// and happen to use the same numbers) call a lent object at the same
		// time, each over a connection of its own
		c.Params["twin_raw"] = 1 + r.IntN(3)
	}
	if c.Params["lend"] == 1 && r.IntN(2) == 0 {
		for i := 0; i < 1+r.IntN(4); i++ {
			c.Ops = append(c.Ops, core.Op{Kind: "raw", Actor: 100, X: int64(1 + r.IntN(8)), Y: int64(r.IntN(4)), S: "lent"})
		}
	}
	if c.Params["lend"] == 1 && c.Params["lend_same"] == 0 && r.IntN(4) == 0 {
		// a peer of another kind asks a lent object for its events: a
		// registerEvent call that names the object the way its lender does
		// (the last thing that peer does: see the known finding)
		c.Ops = append(c.Ops, core.Op{Kind: "raw", Actor: 100, X: int64(ref.Call), Y: int64(r.IntN(4)), S: "lent-reg"})
	}
	if c.Params["raw"] == 1 && r.IntN(3) == 0 {
		// one more peer, in a hurry: it calls the service before it has
		// authenticated, then authenticates and calls again on the same
		// connection. Each of its calls has one outcome (an answer, or the
		// end of the connection), whatever the server thinks of its manners
		c.Params["premature"] = 1 + r.IntN(3)
	}
	if c.Params["raw"] == 1 {
		n := 2 + r.IntN(8)
		for i := 0; i < n; i++ {
			typ := 1 + r.IntN(8)
			act := []int{ActEcho, ActFire, ActNoarg, ActEcho}[r.IntN(4)]
			pay := "valid"
			if r.IntN(3) == 0 {
				pay = "empty"
			}
			c.Ops = append(c.Ops, core.Op{Kind: "raw", Actor: 100, X: int64(typ), Y: int64(act), S: pay})
		}
		// the methods every object has without having declared them
		// (registerEvent, unregisterEvent) and the one method of service zero
		// (authenticate), which are written by hand: same rules
		for i := 0; i < r.IntN(4); i++ {
			typ := 1 + r.IntN(8)
			if r.IntN(2) == 0 {
				typ = ref.Post
			}
			c.Ops = append(c.Ops, core.Op{Kind: "raw", Actor: 100, X: int64(typ), Y: int64(r.IntN(2)), S: []string{"reg", "unreg", "auth"}[r.IntN(3)]})
		}
	}
	return c
}

type c04state struct {
	w       *World
	raw     *Raw
	rawSent []c04raw
	// (idle lender) what takes the lent object back, and when it was invoked
	mu        sync.Mutex
	takeBack  func()
	takenBack int64
	// the objects the clients lent, by the number of the server object they
	// were lent to
	lentImpls map[int]*LentImpl
}

type c04raw struct {
	id   uint32
	typ  uint8
	act  uint32
	key  string
	pay  string
	sent bool
}

func (c04) Run(c *core.Case, env *core.Env) {
	st := &c04state{lentImpls: map[int]*LentImpl{}}
	env.Set("st", st)
	env.NW.PauseFaults(true) // faults hit the calls, not the set-up
	w, err := StartServer(env, bus.Dictionary(map[string]string{"u": "p"}), c.P("objects", 1))
	if err != nil {
		env.Violate("harness/setup", "%v", err)
		return
	}
	st.w = w
	for _, impl := range w.Impls {
		impl.SlowMs = c.P("slow_ms", 0)
	}
	var twin bus.Service
	if c.P("twin", 0) == 1 {
		// a second service on the same server whose main object has the same
		// object id and the same actions: what tells the calls apart is the
		// service id alone
		zzsim.SetNode("server")
		twin, err = w.Srv.NewService("Twin", probe.ProbeObject(&ProbeImpl{Env: env, Obj: len(w.ObjIDs), SlowMs: c.P("slow_ms", 0)}))
		zzsim.SetNode("harness")
		if err != nil {
			env.Violate("setup/twin", "%v", err)
			return
		}
	}
	nConn := c.P("conns", 1)
	proxies := make([][]probe.ProbeProxy, nConn)
	for i := 0; i < nConn; i++ {
		cl, err := Connect(fmt.Sprintf("client%d", i), "u", "p")
		if err != nil {
			env.Violate("setup/connect", "%v", err)
			return
		}
		for o := range w.ObjIDs {
			p, err := ProbeProxy(cl, w.ServiceID, w.ObjIDs[o])
			if err != nil {
				env.Violate("setup/proxy", "%v", err)
				return
			}
			proxies[i] = append(proxies[i], p)
		}
		if twin != nil {
			p, err := ProbeProxy(cl, twin.ServiceID(), 1)
			if err != nil {
				env.Violate("setup/proxy", "%v", err)
				return
			}
			proxies[i] = append(proxies[i], p)
		}
	}
	if c.P("lend", 0) >= 1 {
		// one reference to the remote service per connection: the objects a
		// client hosts get their identifiers from it
		refs := map[int]bus.Service{}
		var firstLent probe.LentProxy
		for o := range w.ObjIDs {
			cn := o % nConn
			zzsim.SetNode(fmt.Sprintf("client%d", cn))
			if refs[cn] == nil || c.P("lend", 0) == 2 {
				refs[cn] = proxies[cn][o].Proxy().ProxyService(nil)
			}
			svcRef := refs[cn]
			var lp probe.LentProxy
			if c.P("lend_same", 0) == 1 && o == 1 {
				cn, lp = 0, firstLent
				zzsim.SetNode("client0")
			} else if c.P("idle_lender", 0) == 1 && o == 0 {
				zzsim.SetNode("harness")
				var lcl bus.Client
				var lpx probe.ProbeProxy
				lcl, err = Connect("lender", "u", "p")
				if err == nil {
					lpx, err = ProbeProxy(lcl, w.ServiceID, w.ObjIDs[0])
				}
				if err == nil {
					zzsim.SetNode("lender")
					idleRef := lpx.Proxy().ProxyService(nil)
					st.lentImpls[0] = &LentImpl{Env: env, Obj: 100}
					lp, err = probe.CreateLent(nil, idleRef, st.lentImpls[0])
					if err == nil {
						err = lpx.Lend(lp)
					}
					if err == nil {
						id := lp.Proxy().ObjectID()
						st.takeBack = func() {
							zzsim.SetNode("lender")
							s := zzsim.Seq()
							st.mu.Lock()
							st.takenBack = s
							st.mu.Unlock()
							if err := idleRef.Remove(id); err != nil {
								env.Violate("setup/take-back", "%v", err)
							}
							env.Probe("lent-objects-taken-back-by-an-idle-lender")
						}
					}
				}
				zzsim.SetNode("harness")
				if err != nil {
					env.Violate("setup/lend", "idle lender: %v", err)
					return
				}
				continue
			} else {
				st.lentImpls[o] = &LentImpl{Env: env, Obj: 100 + o, RefuseEvery: c.P("lent_refuses", 0)}
				lp, err = probe.CreateLent(nil, svcRef, st.lentImpls[o])
			}
			if o == 0 {
				firstLent = lp
			}
			if err == nil {
				err = proxies[cn][o].Lend(lp)
			}
			zzsim.SetNode("harness")
			if err != nil {
				env.Violate("setup/lend", "lending an object to object %d: %v", o, err)
				return
			}
		}
	}
	// (crowd batch) one of the crowded objects is terminated by a client in
	// the middle of the crowd: its own mailbox goroutine takes the service's
	// lock for writing while requests for it are queueing. Calls to it may
	// then fail with "object not found"; nothing else may suffer.
	doomed := c.P("doomed_obj", -1)
	var direct probe.ProbeProxy
	if c.P("direct", 0) == 1 {
		zzsim.SetNode("server")
		impl := &ProbeImpl{Env: env, Obj: len(w.ObjIDs), SlowMs: c.P("slow_ms", 0)}
		direct, err = probe.CreateProbe(nil, w.Svc, impl)
		zzsim.SetNode("harness")
		if err != nil {
			env.Violate("setup/direct", "%v", err)
			return
		}
	}
	var cache *bus.Cache
	if c.P("cached", 0) == 1 {
		zzsim.SetNode("cacheclient")
		_, ch, err := bus.SelectEndPoint([]string{ServerAddr}, "u", "p")
		if err == nil {
			cache = bus.NewCache(ch.EndPoint())
			err = cache.Lookup("Probe", w.ServiceID)
		}
		zzsim.SetNode("harness")
		if err != nil {
			env.Violate("setup/cache", "%v", err)
			return
		}
	}
	byActor := map[int][]core.Op{}
	var actors []int
	for _, op := range c.Ops {
		if _, ok := byActor[op.Actor]; !ok {
			actors = append(actors, op.Actor)
		}
		byActor[op.Actor] = append(byActor[op.Actor], op)
	}
	if len(byActor[100]) > 0 {
		raw, err := DialRaw(env, "rawpeer", 100)
		if err != nil {
			env.Violate("setup/raw", "%v", err)
			return
		}
		ok, err := raw.Auth("u", "p")
		if err != nil || !ok {
			env.Violate("setup/raw-auth", "%v %v", ok, err)
			return
		}
		st.raw = raw
	}
	env.Note("server up: %d objects, %d connections, %d actors", len(w.ObjIDs), nConn, len(actors))
	env.NW.PauseFaults(false)
	var wg sync.WaitGroup
	if st.takeBack != nil {
		wg.Add(1)
		go func() {
			defer wg.Done()
			for j := 0; j < c.P("idle_lender_delay", 0); j++ {
				zzsim.Yield("h.idle-lender")
			}
			st.takeBack()
		}()
	}
	for _, a := range actors {
		ops := byActor[a]
		wg.Add(1)
		if a == 100 {
			go func() {
				defer wg.Done()
				c04raws(env, st, ops)
			}()
			continue
		}
		go func(a int) {
			defer wg.Done()
			var locals map[int]probe.ProbeProxy
			for i, op := range ops {
				if a >= 80 && a < 90 {
					zzsim.SetNode("server")
					o := int(op.Y) % len(w.ObjIDs)
					if locals == nil {
						locals = map[int]probe.ProbeProxy{}
					}
					if locals[o] == nil {
						sess := w.Srv.Session()
						px, err := sess.Proxy("Probe", w.ObjIDs[o])
						if err != nil {
							env.Violate("setup/local-proxy", "%v", err)
							return
						}
						locals[o] = probe.MakeProbe(sess, px)
					}
					op.Y = int64(o)
					c04op(env, a, i, op, locals[o])
					env.Probe("operations-through-the-server's-own-session")
					continue
				}
				if a >= 90 && a < 100 {
					if cache == nil {
						continue
					}
					zzsim.SetNode("cacheclient")
					o := int(op.Y) % len(w.ObjIDs)
					if locals == nil {
						locals = map[int]probe.ProbeProxy{}
					}
					if locals[o] == nil {
						px, err := cache.Proxy("Probe", w.ObjIDs[o])
						if err != nil {
							env.Violate("setup/cache-proxy", "%v", err)
							return
						}
						locals[o] = probe.MakeProbe(cache, px)
					}
					op.Y = int64(o)
					c04op(env, a, i, op, locals[o])
					env.Probe("operations-through-a-cached-session")
					continue
				}
				if a >= 70 && a < 80 {
					if direct != nil {
						zzsim.SetNode("server")
						c04op(env, a, i, op, direct)
						env.Probe("operations-through-the-direct-proxy")
					}
					continue
				}
				if int(op.X) >= len(proxies) || int(op.Y) >= len(proxies[op.X]) {
					continue
				}
				c04op(env, a, i, op, proxies[op.X][op.Y])
			}
		}(a)
	}
	if n := c.P("twin_raw", 0); n > 0 {
		for twin := 0; twin < 2; twin++ {
			wg.Add(1)
			go func(twin int) {
				defer wg.Done()
				peer, err := DialRaw(env, fmt.Sprintf("rawtwin%d", twin), 110+twin)
				if err != nil {
					return
				}
				if ok, err := peer.Auth("u", "p"); err != nil || !ok {
					return
				}
				obj := w.Impls[0].LentPublicID()
				if obj == 0 {
					return
				}
				for i := 0; i < n; i++ {
					// the same message ids on both connections
					id := uint32(7001 + 2*i)
					tok := ref.Token{Client: int32(110 + twin), Seq: int32(i), Nonce: int64(twin), Text: "w"}
					h := env.Invoke(110+twin, "raw-twin-call", tok.Key())
					err := peer.Send(ref.NewFrame(ref.Call, w.ServiceID, obj, ActEcho, id, ref.EncodeToken(tok)))
					out := ""
					if err == nil {
						if a, ok := peer.WaitID(id); !ok {
							err = fmt.Errorf("connection closed")
						} else if a.Type == ref.Error {
							err = fmt.Errorf("%s", ref.ErrorText(a.Payload))
						} else if t, derr := ref.DecodeToken(a.Payload); derr != nil {
							out = "undecodable"
						} else {
							out = t.Key()
						}
					}
					env.Return(h, out, err)
				}
				env.Probe("peers-numbering-their-messages-alike-call-a-lent-object")
			}(twin)
		}
	}
	if k := c.P("premature", 0); k > 0 {
		wg.Add(1)
		go func() {
			defer wg.Done()
			early, err := DialRaw(env, "rawearly", 101)
			if err != nil {
				return
			}
			one := func(what string, f ref.Frame) {
				h := env.Invoke(101, "raw-early-"+what, fmt.Sprintf("id%d", f.ID))
				err := early.Send(f)
				out := ""
				if err == nil {
					if a, ok := early.WaitID(f.ID); ok {
						out = ref.TypeName(a.Type)
					} else {
						out = "end of the connection"
					}
				}
				env.Return(h, out, err)
			}
			tok := ref.Token{Client: 101, Seq: 1, Nonce: 1, Text: "e"}
			typ := uint8([]int{ref.Call, ref.Call, ref.Post}[k-1])
			if typ == ref.Call {
				one("call", ref.NewFrame(ref.Call, w.ServiceID, 1, ActEcho, early.NextID(), ref.EncodeToken(tok)))
			} else {
				early.Send(ref.NewFrame(ref.Post, w.ServiceID, 1, ActFire, early.NextID(), ref.EncodeToken(tok)))
			}
			one("authenticate", ref.NewFrame(ref.Call, 0, 0, 8, early.NextID(), ref.AuthPayload("u", "p")))
			tok.Seq = 2
			one("call", ref.NewFrame(ref.Call, w.ServiceID, 1, ActEcho, early.NextID(), ref.EncodeToken(tok)))
			env.Probe("peers-calling-before-they-authenticate")
		}()
	}
	if doomed >= 0 && doomed < len(proxies[0]) && doomed < len(w.ObjIDs) {
		wg.Add(1)
		go func() {
			defer wg.Done()
			for j := 0; j < c.P("spare_delay", 0); j++ {
				zzsim.Yield("h.doom-delay")
			}
			h := env.Invoke(46, "terminate-object", fmt.Sprintf("o%d", doomed))
			err := proxies[0][doomed].Terminate(w.ObjIDs[doomed])
			env.Return(h, "", err)
			env.Probe("crowded-object-terminated")
		}()
	}
	wg.Wait()
	env.Note("all actors returned")
}

func c04op(env *core.Env, a, i int, op core.Op, p probe.ProbeProxy) {
	nonce, _ := strconv.ParseUint(op.S, 16, 63)
	tok := probe.Token{Client: int32(a), Seq: int32(i), Nonce: int64(nonce), Text: "t"}
	key := tokOf(tok).Key()
	arg := fmt.Sprintf("%s@o%d", key, op.Y)
	// some arguments are large (beyond any plausible threshold of the write
	// path); the padding is checked and stripped before the answer is recorded
	pad := 0
	if env.C.P("big", 0) == 1 {
		pad = []int{4095, 4096, 9000, 70000, 0, 0, 0, 0, 0, 0, 0, 0}[nonce>>8%12]
	}
	tok.Text = strings.Repeat("p", pad) + "t"
	tokOf := func(ret probe.Token) ref.Token {
		if len(ret.Text) > pad && strings.Count(ret.Text[:pad], "p") == pad {
			ret.Text = ret.Text[pad:]
		}
		return ref.Token{Client: ret.Client, Seq: ret.Seq, Nonce: ret.Nonce, Text: ret.Text}
	}
	if pad > 0 {
		env.Probe("large-arguments")
	}
	switch op.Kind {
	case "echo":
		h := env.Invoke(a, "echo", arg)
		ret, err := p.Echo(tok)
		env.Return(h, tokOf(ret).String(), err)
	case "relay":
		h := env.Invoke(a, "relay", arg)
		ret, err := p.Relay(tok)
		env.Return(h, tokOf(ret).String(), err)
	case "slow":
		h := env.Invoke(a, "slow", arg)
		ret, err := p.Slow(tok)
		env.Return(h, tokOf(ret).String(), err)
	case "fire":
		h := env.Invoke(a, "fire", arg)
		err := p.Fire(tok)
		env.Return(h, "", err)
	case "noarg":
		h := env.Invoke(a, "noarg", arg)
		n, err := p.Noarg()
		env.Return(h, strconv.Itoa(int(n)), err)
	case "stats-on":
		h := env.Invoke(a, "stats-on", arg)
		err := p.EnableStats(true)
		env.Return(h, "", err)
	case "trace-on":
		h := env.Invoke(a, "trace-on", arg)
		err := p.EnableTrace(true)
		env.Return(h, "", err)
	case "stats-read":
		h := env.Invoke(a, "stats-read", arg)
		_, err := p.Stats()
		env.Return(h, "", err)
	case "cancel-echo", "cancel-noarg":
		ctx, cancel := context.WithCancel(context.Background())
		q := p.WithContext(ctx)
		delay := int(nonce % 7)
		go func() {
			for j := 0; j < delay; j++ {
				zzsim.Yield("h.cancel-delay")
			}
			cancel()
		}()
		if op.Kind == "cancel-echo" {
			h := env.Invoke(a, "cancel-echo", arg)
			ret, err := q.Echo(tok)
			env.Return(h, tokOf(ret).String(), err)
		} else {
			h := env.Invoke(a, "cancel-noarg", arg)
			n, err := q.Noarg()
			env.Return(h, strconv.Itoa(int(n)), err)
		}
		cancel()
	}
}

func c04raws(env *core.Env, st *c04state, ops []core.Op) {
	raw := st.raw
	w := st.w
	for i, op := range ops {
		id := raw.NextID()
		tok := ref.Token{Client: 100, Seq: int32(i), Nonce: int64(op.X)<<8 | int64(i), Text: "r"}
		var payload []byte
		key := ""
		if op.S == "valid" && op.Y != ActNoarg {
			payload = ref.EncodeToken(tok)
			key = tok.Key()
		}
		svc, obj, act := w.ServiceID, uint32(1), uint32(op.Y)
		switch op.S {
		case "reg", "unreg":
			// well-formed (un)registration of the raw peer for a signal
			var b ref.Buf
			b.U32(1)
			b.U32([]uint32{SigTick, SigTock}[op.Y%2])
			b.U64(uint64(4000 + i))
			payload, act = b.Bytes(), 0
			if op.S == "unreg" {
				act = 1
			}
		case "auth":
			svc, obj, act = 0, 0, 8
			payload = ref.AuthPayload("u", "p")
		case "lent":
			// a frame of any kind addressed to an object hosted by a client,
			// under the identifier the service exposes it with
			obj = w.Impls[int(op.Y)%len(w.Impls)].LentPublicID()
			if obj == 0 {
				continue
			}
			act = ActEcho
			payload = ref.EncodeToken(tok)
			key = tok.Key()
			env.Probe("raw-frames-to-lent-objects")
		case "lent-reg":
			o := int(op.Y) % len(w.Impls)
			li := st.lentImpls[o]
			obj = w.Impls[o].LentPublicID()
			if obj == 0 || li == nil || li.Activated() == 0 {
				continue
			}
			var b ref.Buf
			b.U32(li.Activated()) // the identifier the lender knows the object by
			b.U32(SigTick)
			b.U64(uint64(4000 + i))
			payload, act = b.Bytes(), 0
			env.Probe("raw-registerEvent-to-a-lent-object")
		}
		rec := c04raw{id: id, typ: uint8(op.X), act: act, key: key, pay: op.S}
		kind := "raw-" + ref.TypeName(uint8(op.X))
		if op.S == "lent-reg" {
			kind = "raw-registerEvent-to-a-lent-object"
		}
		h := env.Invoke(100, kind, fmt.Sprintf("a%d id%d %s %s", act, id, op.S, key))
		err := raw.Send(ref.NewFrame(uint8(op.X), svc, obj, act, id, payload))
		rec.sent = err == nil
		st.rawSent = append(st.rawSent, rec)
		out := ""
		if err == nil && op.X == ref.Call {
			f, ok := raw.WaitID(id)
			if ok {
				out = ref.TypeName(f.Type)
				if f.Type == ref.Error {
					out += ":" + ref.ErrorText(f.Payload)
				}
			} else {
				err = fmt.Errorf("connection closed")
			}
		}
		env.Return(h, out, err)
	}
}

func overlapping(hs []*core.Hist) int {
	n := 0
	for i, a := range hs {
		for _, b := range hs[i+1:] {
			ar, br := a.Ret, b.Ret
			if ar == 0 {
				ar = 1 << 62
			}
			if br == 0 {
				br = 1 << 62
			}
			if a.Call < br && b.Call < ar {
				n++
			}
		}
	}
	return n
}

func (c04) Check(c *core.Case, env *core.Env, res zzsim.Result, v *core.Verdict) {
	st, _ := env.Get("st").(*c04state)
	hs := env.History()
	execs := env.Execs()
	prefix := "C04/"
	if c.P("lend", 0) == 2 {
		prefix = "C04/own-service-reference/"
	}
	if c.P("lend_same", 0) == 1 {
		prefix = "C04/lent-twice/"
	}
	bad := func(class, format string, args ...interface{}) {
		v.Violations = append(v.Violations, core.Violation{Class: prefix + class, Detail: fmt.Sprintf(format, args...)})
	}
	if st == nil || st.w == nil {
		return
	}
	byKey := map[string][]core.Exec{}
	noargExecs := 0
	for _, e := range execs {
		if e.Key != "" {
			byKey[e.Key] = append(byKey[e.Key], e)
		}
		if e.Method == "noarg" {
			noargExecs++
		}
	}
	noargFrames := 0
	seenOrd := map[string]*core.Hist{}
	for _, h := range hs {
		if h.Kind == "raw-twin-call" && h.Ret != 0 && h.OK && h.Out != h.Arg {
			bad("wrong-reply", "a peer called a lent object with the token %s and was answered with %s (another peer, on another connection, used the same message id at the same time)", h.Arg, h.Out)
		}
		if strings.HasPrefix(h.Kind, "raw-") {
			if h.Ret == 0 {
				bad("hang/"+h.Kind, "a peer's request has no outcome, neither an answer nor the end of its connection: %s", h)
			}
			continue
		}
		key, objs, _ := strings.Cut(h.Arg, "@o")
		obj, _ := strconv.Atoi(objs)
		if h.Ret == 0 {
			bad("hang/"+h.Kind, "operation never returned: %s", h)
			if strings.Contains(h.Kind, "noarg") {
				noargFrames++
			}
			continue
		}
		v.OpsDone++
		switch h.Kind {
		case "echo", "slow", "cancel-echo", "cancel-noarg", "relay", "fire", "noarg":
			// On a healthy connection a call loses its answer for two reasons
			// only: its caller cancelled it, or the endpoint shed it because a
			// queue was full and said so. Anything else means the call's own
			// answer went astray.
			refused := false
			if h.Kind == "relay" {
				var cl, sq int
				fmt.Sscanf(key, "c%d#%d/", &cl, &sq)
				refused = LentRefuses(c.P("lent_refuses", 0), int32(sq))
			}
			if refused && h.OK {
				bad("wrong-reply", "%s succeeded although the lent object answered this token with an error", h)
			} else if refused && strings.Contains(h.Err, fmt.Sprintf("refuses token")) {
				// the lent object's own error, carried back through the
				// service to the caller
				env.Probe("lent-object-error-reached-the-caller")
			} else if !h.OK && strings.HasSuffix(h.Arg, fmt.Sprintf("@o%d", c.P("doomed_obj", -1))) && strings.Contains(h.Err, "bject not found") {
				env.Probe("call-to-the-terminated-object-refused")
			} else if !h.OK && h.Kind == "relay" && obj == 0 && st.takenBack != 0 && h.Ret > st.takenBack {
				// its lender took the object back: one outcome, an error
				env.Probe("call-relayed-to-an-object-its-lender-took-back-refused")
			} else if !h.OK && c.Batch != "faults" && !strings.Contains(h.Err, "ancel") && !strings.Contains(h.Err, "consumer blocked") {
				bad("answer-lost-on-healthy-connection", "%s failed although nothing is wrong with the connection and nobody cancelled it: %s", h, h.Err)
			}
		}
		switch h.Kind {
		case "echo", "slow", "cancel-echo", "relay":
			method := "echo"
			if h.Kind == "slow" {
				method = "slow"
			}
			if h.Kind == "relay" {
				// executed by the object the client lent to server object obj
				obj += 100
				if c.P("lend_same", 0) == 1 && obj == 101 {
					obj = 100
				}
			}
			n := len(byKey[key])
			if h.OK {
				// the answer must be this call's own token, computed by one
				// execution of the right method on the right object
				want := fmt.Sprintf("%s:t|o%d|x", key, obj)
				if !strings.HasPrefix(h.Out, want) {
					bad("wrong-reply", "%s returned %q, expected its own token %q...", h, h.Out, want)
				} else {
					ord, _ := strconv.Atoi(strings.TrimPrefix(h.Out, want))
					if ord < 1 || ord > len(execs) || execs[ord-1].Key != key || execs[ord-1].Method != method || execs[ord-1].Obj != obj {
						bad("wrong-reply", "%s: answer names execution %d which is not an execution of this call", h, ord)
					}
				}
				if n != 1 {
					bad("exec-count/successful-call-not-once", "%s succeeded but its method body ran %d times", h, n)
				}
			} else if n > 1 {
				bad("exec-count/more-than-once", "%s failed (%s) and its method body ran %d times", h, h.Err, n)
			}
			if !h.OK && !strings.Contains(h.Err, "ancel") {
				env.Probe("call-failed")
			}

			if !h.OK && strings.Contains(h.Err, "consumer blocked") {
				env.Probe("call-shed-by-full-queue")
			}
		case "fire":
			n := len(byKey[key])
			if h.OK && n != 1 {
				bad("exec-count/successful-call-not-once", "%s succeeded but its method body ran %d times", h, n)
			} else if n > 1 {
				bad("exec-count/more-than-once", "%s: method body ran %d times", h, n)
			}
			if !h.OK {
				env.Probe("call-failed")
			}
		case "noarg", "cancel-noarg":
			noargFrames++
			if h.OK {
				ord, _ := strconv.Atoi(h.Out)
				if ord < 1 || ord > len(execs) || execs[ord-1].Method != "noarg" || execs[ord-1].Obj != obj {
					bad("wrong-reply", "%s: answer %q is not an execution of noarg on object %d", h, h.Out, obj)
				} else if execs[ord-1].Seq < h.Call || execs[ord-1].Seq > h.Ret {
					bad("wrong-reply", "%s: answered with execution %d which ran outside the call's interval", h, ord)
				}
				if prev, dup := seenOrd[h.Out]; dup {
					bad("wrong-reply", "two calls got the result of the same execution: %s and %s", prev, h)
				}
				seenOrd[h.Out] = h
			} else if h.Kind == "noarg" {
				env.Probe("call-failed")
			}
		}
	}
	// raw frames: only call and post may run a method
	if st.raw != nil {
		frames := st.raw.Frames()
		resp := map[uint32]int{}
		replies := map[uint32]int{}
		for _, f := range frames {
			if f.F.Type == ref.Reply || f.F.Type == ref.Error {
				resp[f.F.ID]++
			}
			if f.F.Type == ref.Reply {
				replies[f.F.ID]++
			}
		}
		for _, rf := range st.rawSent {
			if !rf.sent {
				continue
			}
			if rf.pay == "lent-reg" && resp[rf.id] == 0 {
				continue // (reported as the hang of that request)
			}
			isNoarg := rf.act == ActNoarg
			if isNoarg && (rf.typ == ref.Call || rf.typ == ref.Post) {
				noargFrames++
			}
			n := len(byKey[rf.key])
			if rf.key == "" {
				n = 0
			}
			// a registration that took effect is told, with an Error message
			// carrying the registration's own id, when its object goes away:
			// that is not an answer to the registration
			notice := 0
			if rf.pay == "reg" && c.P("doomed_obj", -1) >= 0 && resp[rf.id]-replies[rf.id] > 0 && (rf.typ == ref.Post || replies[rf.id] == 1) {
				notice = 1
				env.Probe("termination-notice-to-the-raw-subscriber")
			}
			resp[rf.id] -= notice
			switch rf.typ {
			case ref.Call:
				if n > 1 {
					bad("exec-count/more-than-once", "raw call id %d ran its method %d times", rf.id, n)
				}
				if resp[rf.id] != 1 {
					bad("answers/call-not-exactly-one", "raw call id %d (action %d, %s payload) got %d reply/error frames", rf.id, rf.act, rf.pay, resp[rf.id])
				}
			case ref.Post:
				if n > 1 {
					bad("exec-count/more-than-once", "raw post id %d ran its method %d times", rf.id, n)
				}
				if resp[rf.id] != 0 && rf.pay != "empty" {
					bad("answers/post-answered", "raw post id %d (action %d, %s) got %d reply/error frames", rf.id, rf.act, rf.pay, resp[rf.id])
				}
			default:
				if replies[rf.id] > 0 && (rf.pay == "reg" || rf.pay == "unreg" || rf.pay == "auth") {
					// the result of the method came back: it ran
					bad("exec/"+ref.TypeName(rf.typ)+"-frame-ran-method", "a %s frame (id %d, action %d, %s) was answered with the result of the method", ref.TypeName(rf.typ), rf.id, rf.act, rf.pay)
				}
				if n > 0 {
					bad("exec/"+ref.TypeName(rf.typ)+"-frame-ran-method", "a %s frame (id %d, action %d) made the method body run %d times", ref.TypeName(rf.typ), rf.id, rf.act, n)
				}
			}
		}
		if err := st.raw.Junk(); err != nil {
			bad("stream-corrupt", "raw peer received a corrupt stream: %v", err)
		}
	}
	if noargExecs > noargFrames {
		bad("exec/non-call-frame-ran-method", "noarg ran %d times but only %d call/post frames for it were sent", noargExecs, noargFrames)
	}
	for _, cn := range env.NW.Conns() {
		if strings.HasPrefix(cn.Node(), "client") {
			env.ProbeN("reply-read-before-send-returned", EarlyReplies(cn))
		}
	}
	ov := overlapping(hs)
	v.Nontrivial = ov > 0 && v.Stats.Switches > 0
	if v.Probes == nil {
		v.Probes = map[string]int{}
	}
	env.ProbeN("overlapping-op-pairs", ov)
	// replies crossing: two calls on one connection answered in the opposite order
	for i, a := range hs {
		for _, b := range hs[i+1:] {
			if a.Client != b.Client && a.Ret != 0 && b.Ret != 0 && a.Call < b.Call && b.Ret < a.Ret {
				env.Probe("replies-crossed")
			}
		}
	}
}
