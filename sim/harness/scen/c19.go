package scen

import (
	"fmt"
	"github.com/lugu/qiloop/type/object"
	"math/rand/v2"
	"strconv"
	"strings"
	"sync"

	"github.com/lugu/qiloop/bus"
	"github.com/lugu/qiloop/bus/directory"
	"github.com/lugu/qiloop/bus/net"
	"github.com/lugu/qiloop/bus/services"
	"github.com/lugu/qiloop/bus/session"
	probe "github.com/lugu/qiloop/zzprobe"

	"qsimharness/core"
	"zzsim"
)

// C19: a session can be shared by concurrent goroutines: every request for a
// registered service gets a working proxy, the process does not crash, and
// the session ends up with at most one connection per remote endpoint.
type c19 struct{}

func init() { core.Register("C19", func() core.Scenario { return c19{} }) }

func (c19) Gen(r *rand.Rand, tier string, run int) *core.Case {
	c := &core.Case{Prop: "C19", Params: map[string]int{}}
	c.Sim = baseSim(r, []string{"bus/session/session.go"})
	if c.Sim.MeanGap == 0 || c.Sim.MeanGap > 200 {
		c.Sim.MeanGap = []int{10, 30, 80}[r.IntN(3)]
	}
	c.Sim.HotFiles = []string{"bus/session/session.go"}
	c.Sim.HotWeight = []int{1, 5, 20}[r.IntN(3)]
	c.Net = baseNet(r)
	if c.Net.ReadMode == "tiny" {
		c.Net.ReadMode = "random"
	}
	servers := 1 + r.IntN(2)
	c.Params["servers"] = servers
	c.Params["multi_addr"] = r.IntN(3) // 1: two addresses advertised, one answers; 2: both answer
	c.Params["addr_order"] = r.IntN(2)
	c.Params["subscribe"] = r.IntN(2)
	c.Params["twin_services"] = r.IntN(2)
	if r.IntN(6) == 0 {
		c.Params["testrange"] = 1
	}
	if r.IntN(4) == 0 {
		// a service registered before all the others (so that it comes
		// first in every listing), which nobody asks for, goes away while
		// the goroutines make their first requests
		c.Params["victim"] = 1
		c.Params["victim_delay"] = r.IntN(150)
	}
	if r.IntN(5) == 0 {
		// a registered service whose endpoint accepts connections and never
		// says a word (a process that is stuck): whoever asks for it waits, and
		// is not judged; everybody else is served meanwhile
		c.Params["mute"] = 1
		c.Params["mute_delay"] = r.IntN(60)
	}
	if r.IntN(4) == 0 {
		c.Params["early_service"] = 1
		c.Params["early_delay"] = r.IntN(120)
	}
	n := 2 + r.IntN(5)
	if r.IntN(8) == 0 {
		// "any number of goroutines": more of them than the server queues
		// calls for one connection
		c.Batch = "many-goroutines"
		n = 12 + r.IntN(8)
		c.Params["many"] = 1
		// (no news from the directory meanwhile: a refresh of the session's
		// list shed by the full queue is the known finding in another guise)
		delete(c.Params, "victim")
	}
	for g := 0; g < n; g++ {
		k := 1 + r.IntN(2)
		for i := 0; i < k; i++ {
			// X: which service (0 = on the directory's server, 1.. = extra servers); Y: 0 Proxy, 1 Object
			c.Ops = append(c.Ops, core.Op{Kind: "proxy", Actor: g, X: int64(r.IntN(servers + 1)), Y: int64(r.IntN(2))})
		}
	}
	// a second phase after something happened to the session's world: the
	// connection to one endpoint is reset by its server (the session must
	// notice, forget the dead connection and dial again), and / or a service
	// registered after the session was created must be reachable through it
	if c.Batch == "" && r.IntN(3) == 0 {
		c.Batch = "second-phase"
		c.Params["break"] = r.IntN(3) // 0 no; 1 reset, then quiescence; 2 reset racing with the requests
		c.Params["break_addr"] = r.IntN(servers + 1)
		c.Params["late"] = r.IntN(2)
		c.Params["late_extra"] = r.IntN(3)
		c.Params["restarts"] = []int{0, 0, 1, 2}[r.IntN(4)]
		if c.Params["break"] == 0 {
			c.Params["late"] = 1
		}
		m := 2 + r.IntN(4)
		for g := 0; g < m; g++ {
			k := 1 + r.IntN(2)
			for i := 0; i < k; i++ {
				// X: service, servers+1 = the late one
				c.Ops = append(c.Ops, core.Op{Kind: "proxy2", Actor: 100 + g, X: int64(r.IntN(servers + 2)), Y: int64(r.IntN(2))})
			}
		}
	}
	return c
}

type c19state struct {
	addrs  []string
	broken string // endpoint whose connection was reset
	racing bool
	phase2 int64 // sequence number at which the second phase started
	lateOK bool
}

func (c19) Run(c *core.Case, env *core.Env) {
	st := &c19state{}
	env.Set("st", st)
	auth := bus.Dictionary(map[string]string{"u": "p"})
	zzsim.SetNode("server0")
	dsrv, err := directory.NewServer(ServerAddr, auth)
	if err != nil {
		zzsim.SetNode("harness")
		env.Violate("harness/setup", "%v", err)
		return
	}
	var victim bus.Service
	if c.P("victim", 0) == 1 {
		victim, err = dsrv.NewService("ProbeVictim", probe.ProbeObject(&ProbeImpl{Env: env, Obj: 90}))
	}
	if err == nil {
		_, err = dsrv.NewService("Probe0", probe.ProbeObject(&ProbeImpl{Env: env, Obj: 0}))
	}
	zzsim.SetNode("harness")
	if err != nil {
		env.Violate("harness/setup", "%v", err)
		return
	}
	st.addrs = append(st.addrs, ServerAddr)
	for i := 1; i <= c.P("servers", 1); i++ {
		node := fmt.Sprintf("server%d", i)
		addr := fmt.Sprintf("tcp://srv%d:1", i)
		zzsim.SetNode(node)
		sess, err := session.NewAuthSession(ServerAddr, "u", "p")
		if err != nil {
			zzsim.SetNode("harness")
			env.Violate("harness/setup", "server session: %v", err)
			return
		}
		var srv bus.Server
		if c.P("multi_addr", 0) >= 1 {
			// a process that advertises two addresses, only one of which
			// answers (services.NewServer spelled out) - or both of which do
			var l net.Listener
			var ns bus.Namespace
			l, err = net.Listen(addr)
			if err == nil && c.P("multi_addr", 0) == 2 {
				var l2 net.Listener
				l2, err = net.Listen(fmt.Sprintf("tcp://alt-srv%d:9", i))
				if err == nil {
					l = newTwoListeners(l, l2)
					env.Probe("servers-reachable-at-two-addresses")
				}
			}
			if err == nil {
				eps := []string{addr, fmt.Sprintf("tcp://alt-srv%d:9", i)}
				if c.P("addr_order", 0) == 1 {
					eps[0], eps[1] = eps[1], eps[0]
				}
				ns, err = services.Namespace(sess, eps)
			}
			if err == nil {
				srv, err = bus.StandAloneServer(l, auth, ns)
			}
		} else {
			srv, err = services.NewServer(sess, addr, auth)
		}
		if err == nil {
			_, err = srv.NewService(fmt.Sprintf("Probe%d", i), probe.ProbeObject(&ProbeImpl{Env: env, Obj: i}))
			if err == nil && c.P("twin_services", 0) == 1 {
				// a second service behind the same endpoint: the session
				// reaches both through one connection
				_, err = srv.NewService(fmt.Sprintf("Probe%db", i), probe.ProbeObject(&ProbeImpl{Env: env, Obj: 50 + i}))
			}
		}
		zzsim.SetNode("harness")
		if err != nil {
			env.Violate("harness/setup", "extra server: %v", err)
			return
		}
		st.addrs = append(st.addrs, addr)
	}
	if c.P("testrange", 0) == 1 {
		// a registered service that only advertises addresses of the range
		// the library refuses to dial: a request for it cannot succeed, and
		// must say so
		cl, err := Connect("registrar", "u", "p")
		var meta object.MetaObject
		if err == nil {
			meta, err = bus.GetMetaObject(cl, 1, 1)
		}
		if err == nil {
			dir := services.MakeServiceDirectory(nil, bus.NewProxy(cl, meta, 1, 1))
			var id uint32
			id, err = dir.RegisterService(services.ServiceInfo{Name: "ProbeTestRange", MachineId: "m", ProcessId: 7,
				Endpoints: []string{"tcp://198.18.0.1:9559"}, SessionId: "s"})
			if err == nil {
				err = dir.ServiceReady(id)
			}
		}
		if err != nil {
			env.Violate("harness/setup", "test range service: %v", err)
			return
		}
	}
	if c.P("mute", 0) == 1 {
		zzsim.SetNode("mute")
		ml, err := net.Listen("tcp://mute:7")
		if err == nil {
			go func() {
				var held []net.Stream
				for {
					s, err := ml.Accept()
					if err != nil {
						return
					}
					held = append(held, s) // kept open, never read, never answered
				}
			}()
		}
		zzsim.SetNode("harness")
		cl, err2 := Connect("registrar-mute", "u", "p")
		if err == nil {
			err = err2
		}
		var meta object.MetaObject
		if err == nil {
			meta, err = bus.GetMetaObject(cl, 1, 1)
		}
		if err == nil {
			dir := services.MakeServiceDirectory(nil, bus.NewProxy(cl, meta, 1, 1))
			var id uint32
			id, err = dir.RegisterService(services.ServiceInfo{Name: "ProbeMute", MachineId: "mm", ProcessId: 8,
				Endpoints: []string{"tcp://mute:7"}, SessionId: "sm"})
			if err == nil {
				err = dir.ServiceReady(id)
			}
		}
		if err != nil {
			env.Violate("harness/setup", "mute service: %v", err)
			return
		}
	}
	env.S.Quiesce()
	// the session under test
	zzsim.SetNode("client")
	var earlyDone chan struct{}
	if c.P("early_service", 0) == 1 {
		// a service that becomes ready while the session is being created
		earlyDone = make(chan struct{})
		go func() {
			defer close(earlyDone)
			zzsim.SetNode("server0")
			for j := 0; j < c.P("early_delay", 0); j++ {
				zzsim.Yield("h.early-service")
			}
			if _, err := dsrv.NewService("ProbeEarly", probe.ProbeObject(&ProbeImpl{Env: env, Obj: 78})); err != nil {
				env.Violate("harness/setup", "early service: %v", err)
			}
		}()
	}
	h := env.Invoke(0, "session", "")
	sess, err := session.NewAuthSession(ServerAddr, "u", "p")
	env.Return(h, "", err)
	zzsim.SetNode("harness")
	if err != nil {
		env.Violate("session-refused", "%v", err)
		return
	}
	if earlyDone != nil {
		<-earlyDone
		env.S.Quiesce()
		env.Probe("service-registered-while-the-session-was-created")
	}
	phase := func(kind string) {
		by := map[int][]core.Op{}
		var actors []int
		for _, op := range c.Ops {
			if op.Kind != kind {
				continue
			}
			if _, ok := by[op.Actor]; !ok {
				actors = append(actors, op.Actor)
			}
			by[op.Actor] = append(by[op.Actor], op)
		}
		var wg sync.WaitGroup
		if victim != nil && kind == "proxy" {
			wg.Add(1)
			go func() {
				defer wg.Done()
				for j := 0; j < c.P("victim_delay", 0); j++ {
					zzsim.Yield("h.victim-delay")
				}
				zzsim.SetNode("server0")
				victim.Terminate()
				env.Probe("a-service-listed-first-went-away-during-the-requests")
			}()
		}
		if c.P("mute", 0) == 1 && kind == "proxy" {
			// (nobody waits for this goroutine: its request has no end)
			go func() {
				zzsim.SetNode("client")
				for j := 0; j < c.P("mute_delay", 0); j++ {
					zzsim.Yield("h.mute-delay")
				}
				h := env.Invoke(80, "proxy-of-a-mute-service", "ProbeMute")
				env.Probe("requests-for-a-service-whose-endpoint-never-answers")
				_, err := sess.Proxy("ProbeMute", 1)
				env.Return(h, "", err)
			}()
		}
		for _, a := range actors {
			wg.Add(1)
			go func(a int) {
				defer wg.Done()
				zzsim.SetNode("client")
				for i, op := range by[a] {
					name := fmt.Sprintf("Probe%d", op.X)
					if c.P("twin_services", 0) == 1 && op.X >= 1 && int(op.X) <= c.P("servers", 1) && (i+a)%3 == 0 {
						name += "b"
					}
					if int(op.X) > c.P("servers", 1) {
						if !st.lateOK {
							continue
						}
						name = "ProbeLate"
					}
					h := env.Invoke(a+1, "proxy", name)
					p, err := sess.Proxy(name, 1)
					env.Return(h, "", err)
					if err != nil {
						continue
					}
					if op.Y == 1 {
						h := env.Invoke(a+1, "object", name)
						q, err := sess.Object(bus.ObjectReference(p))
						env.Return(h, "", err)
						if err != nil {
							continue
						}
						p = q
					}
					tok := probe.Token{Client: int32(a + 1), Seq: int32(i), Nonce: int64(op.X), Text: "s"}
					h = env.Invoke(a+1, "call", fmt.Sprintf("%s@%s", tokOf(tok).Key(), name))
					ret, err := probe.MakeProbe(sess, p).Echo(tok)
					env.Return(h, tokOf(ret).String(), err)
					if c.P("subscribe", 0) == 1 && err == nil && (i+a)%2 == 0 {
						// a working proxy also carries subscriptions: the
						// bookkeeping of the registrations is per connection,
						// shared by every proxy the session hands out
						h = env.Invoke(a+1, "subscribe", fmt.Sprintf("%s@%s", tokOf(tok).Key(), name))
						cancel, ch, err := probe.MakeProbe(sess, p).SubscribeTick()
						env.Return(h, "", err)
						if err == nil {
							go func() {
								for range ch {
								}
							}()
							cancel()
						}
					}
				}
			}(a)
		}
		wg.Wait()
	}
	phase("proxy")
	env.S.Quiesce()
	if c.P("late", 0) == 1 {
		// services registered one right after the other: the session hears
		// of each of them while it may still be digesting the previous news;
		// the one its requests will ask for comes last
		for k := 0; k <= c.P("late_extra", 0); k++ {
			name := "ProbeLate"
			if k < c.P("late_extra", 0) {
				name = fmt.Sprintf("Other%d", k)
			}
			zzsim.SetNode("server0")
			svc, err := dsrv.NewService(name, probe.ProbeObject(&ProbeImpl{Env: env, Obj: 77}))
			for n := 0; err == nil && n < c.P("restarts", 0) && name == "ProbeLate"; n++ {
				// the service is restarted: gone and back under the same
				// name before the session has digested the first news
				if err = svc.Terminate(); err == nil {
					svc, err = dsrv.NewService(name, probe.ProbeObject(&ProbeImpl{Env: env, Obj: 77}))
				}
				env.Probe("service-restarted")
			}
			zzsim.SetNode("harness")
			if err != nil {
				env.Violate("harness/setup", "late service: %v", err)
				return
			}
		}
		st.lateOK = true
		env.S.Quiesce() // the session has heard of them
		env.Probe("late-service")
	}
	if mode := c.P("break", 0); mode > 0 {
		addr := st.addrs[c.P("break_addr", 0)%len(st.addrs)]
		if addr != ServerAddr {
			n := 0
			for _, cn := range env.NW.Conns() {
				if cn.Node() == "client" && !cn.Dead() && "tcp://"+cn.RemoteAddr().String() == addr {
					cn.Peer().Abort()
					n++
				}
			}
			if n > 0 {
				st.broken = addr
				env.Probe("connection-reset-by-server")
				if mode == 1 {
					env.S.Quiesce() // the session has noticed
				} else {
					st.racing = true
				}
			}
		}
	}
	st.phase2 = zzsim.Seq()
	phase("proxy2")
	env.S.Quiesce()
	// all proxies still work afterwards: one more call per service
	for i := 0; i <= len(st.addrs)+2; i++ {
		name := fmt.Sprintf("Probe%d", i)
		if i == len(st.addrs) {
			if !st.lateOK {
				continue
			}
			name = "ProbeLate"
		}
		if i == len(st.addrs)+1 {
			if earlyDone == nil {
				continue
			}
			name = "ProbeEarly"
		}
		if i == len(st.addrs)+2 {
			if c.P("testrange", 0) == 0 {
				continue
			}
			name = "ProbeTestRange"
		}
		zzsim.SetNode("client")
		h := env.Invoke(90, "proxy", name)
		p, err := sess.Proxy(name, 1)
		env.Return(h, "", err)
		if err == nil {
			tok := probe.Token{Client: 90, Seq: int32(i), Nonce: 5, Text: "f"}
			h = env.Invoke(90, "call", fmt.Sprintf("%s@%s", tokOf(tok).Key(), name))
			ret, err := probe.MakeProbe(sess, p).Echo(tok)
			env.Return(h, tokOf(ret).String(), err)
		}
		zzsim.SetNode("harness")
	}
}

func (c19) Check(c *core.Case, env *core.Env, res zzsim.Result, v *core.Verdict) {
	st, _ := env.Get("st").(*c19state)
	if st == nil {
		return
	}
	bad := func(class, format string, args ...interface{}) {
		v.Violations = append(v.Violations, core.Violation{Class: "C19/" + class, Detail: fmt.Sprintf(format, args...)})
	}
	hs := env.History()
	for _, h := range hs {
		if h.Kind == "proxy-of-a-mute-service" {
			// a request for a service whose endpoint says nothing may wait for
			// ever or fail; it is the others that are judged
			continue
		}
		if h.Ret == 0 {
			bad("hang/"+h.Kind, "operation never returned: %s", h)
			continue
		}
		v.OpsDone++
		if !h.OK {
			// requests racing with the reset of their endpoint's connection
			// may fail (the session may not have noticed yet); the requests
			// made after quiescence (client 90) may not
			name := h.Arg
			if _, n, ok := strings.Cut(h.Arg, "@"); ok {
				name = n
			}
			idx, _ := strconv.Atoi(strings.TrimSuffix(strings.TrimPrefix(name, "Probe"), "b"))
			if name == "ProbeTestRange" {
				env.Probe("request-for-an-unreachable-service-refused")
			} else if st.racing && h.Client > 100 && h.Call >= st.phase2 && name != "ProbeLate" && idx < len(st.addrs) && st.addrs[idx] == st.broken {
				env.Probe("request-failed-while-racing-with-reset")
			} else if c.P("many", 0) == 1 && strings.Contains(h.Err, "message dropped: consumer blocked") {
				// cause-specific (known finding): the server said that it shed
				// the request because ten others of the connection were queued
				bad("request-shed-by-full-queue", "more goroutines than the server queues calls for one connection share the session's connection, and one of their requests was shed: %s", h)
			} else {
				bad(h.Kind+"-failed", "a request for a registered service failed: %s", h)
			}
		}
		if h.Kind == "call" && h.OK {
			key, name, _ := strings.Cut(h.Arg, "@")
			obj := strings.TrimPrefix(name, "Probe")
			if obj == "Late" {
				obj = "77"
			}
			if obj == "Early" {
				obj = "78"
			}
			if strings.HasSuffix(obj, "b") {
				n, _ := strconv.Atoi(strings.TrimSuffix(obj, "b"))
				obj = strconv.Itoa(50 + n)
			}
			if !strings.HasPrefix(h.Out, key+":") || !strings.Contains(h.Out, "|o"+obj+"|") {
				bad("wrong-reply", "%s returned %q", h, h.Out)
			}
		}
	}
	if !res.Quiescent {
		return
	}
	// connections of the client node that are still open, per endpoint
	open := map[string]int{}
	for _, cn := range env.NW.Conns() {
		if cn.Node() != "client" {
			continue
		}
		if !cn.Dead() {
			open[cn.RemoteAddr().String()]++
		}
	}
	for addr, n := range open {
		if n > 1 {
			bad("more-than-one-connection", "the session holds %d open connections to %s", n, addr)
		}
	}
	// ... and per remote process, whatever address it was reached at
	peers := map[string][]string{}
	for _, cn := range env.NW.Conns() {
		if cn.Node() == "client" && !cn.Dead() && cn.Peer() != nil {
			peers[cn.Peer().Node()] = append(peers[cn.Peer().Node()], cn.RemoteAddr().String())
		}
	}
	for node, as := range peers {
		if len(as) > 1 {
			same := true
			for _, a := range as[1:] {
				same = same && a == as[0]
			}
			if !same {
				bad("more-than-one-connection", "the session holds %d open connections to the process %s, at %v", len(as), node, as)
			}
		}
	}
	env.ProbeN("client-connections-dialled", func() int {
		n := 0
		for _, cn := range env.NW.Conns() {
			if cn.Node() == "client" {
				n++
			}
		}
		return n
	}())
	ov := overlapping(hs)
	env.ProbeN("overlapping-op-pairs", ov)
	v.Nontrivial = ov > 0 && v.Stats.Switches > 0
}

// twoListeners is one listener made of two: a process reachable at two
// addresses.
type twoListeners struct {
	a, b    net.Listener
	streams chan net.Stream
	once    sync.Once
}

func newTwoListeners(a, b net.Listener) *twoListeners {
	l := &twoListeners{a: a, b: b, streams: make(chan net.Stream)}
	accept := func(from net.Listener) {
		for {
			s, err := from.Accept()
			if err != nil {
				return
			}
			l.streams <- s
		}
	}
	go accept(a)
	go accept(b)
	return l
}

func (l *twoListeners) Accept() (net.Stream, error) {
	s, ok := <-l.streams
	if !ok {
		return nil, fmt.Errorf("closed")
	}
	return s, nil
}

func (l *twoListeners) Close() error {
	l.once.Do(func() {
		l.a.Close()
		l.b.Close()
	})
	return nil
}
