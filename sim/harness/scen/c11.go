package scen

import (
	"fmt"
	"math/rand/v2"
	"strings"
	"sync"

	"github.com/lugu/qiloop/bus"
	probe "github.com/lugu/qiloop/zzprobe"

	"qsimharness/core"
	"qsimharness/ref"
	"zzsim"
	"zzsim/simnet"
)

// C11: losing the connection fails calls promptly instead of hanging them;
// later calls fail; subscription channels are closed; disconnect callbacks
// fire exactly once; a reply that arrives before Send returned is delivered.
//
// Fault enumeration: runs are grouped in blocks that share scenario,
// configuration and decision tape seed; inside a block the fault is placed at
// every I/O operation index of the client connection x every fault kind.
type c11 struct{}

func init() { core.Register("C11", func() core.Scenario { return c11{} }) }

var c11kinds = []string{simnet.FReset, simnet.FClosePeer, simnet.FCloseLocal, simnet.FWriteErr, simnet.FCrash}

const c11block = 640 // 127 operation positions x 5 fault kinds (+5 fault-free runs)

func (c11) Gen(r *rand.Rand, tier string, run int) *core.Case {
	c := &core.Case{Prop: "C11", Params: map[string]int{}}
	block := run / c11block
	j := run % c11block
	// everything but the fault position comes from the block's own PRNG
	br := rand.New(rand.NewPCG(uint64(block)*7919+13, core.JobSeed)) // same for the whole block
	c.Sim = baseSim(br, []string{"bus/client.go", "bus/net/endpoint.go"})
	c.Net = simnet.Config{IOYield: br.IntN(4) != 0}
	c.Net.Capacity = []int{0, 0, 64, 4096}[br.IntN(4)]
	c.Net.ReadMode = []string{"greedy", "greedy", "random"}[br.IntN(3)]
	c.Net.EOFData = []int{0, 50}[br.IntN(2)]
	c.Net.Abortive = []int{0, 30}[br.IntN(2)]
	c.Net.LateWrite = br.IntN(2) == 0
	c.Net.CloseErr = []int{0, 0, 100}[br.IntN(3)]
	c.Params["blocking_cb"] = br.IntN(2)
	// a goroutine of the application registers one more disconnect callback
	// and one more subscription handler at a moment of its own, which may be
	// the very moment the connection is being lost
	c.Params["late_reg"] = 1 + (j*7+block)%160
	if block%5 == 4 {
		// a block without transport faults: the application closes the
		// client's endpoint itself, at a drawn moment
		c.Params["app_close"] = 1
	}
	c.Params["scenario"] = block % 4
	c.Params["tape_seed"] = int(br.Uint64() >> 33)
	c.Params["block"] = block
	if block%10 == 7 {
		// a block in which the server stops reading: the client's sends fill
		// the connection and block in the middle of a message; the loss comes
		// while they are blocked (closed by the application, reset or closed
		// by the peer). Every run of the block has its own schedule.
		delete(c.Params, "app_close")
		c.Params["scenario"] = block / 10 % 4
		c.Params["stall"] = 1 + j%3 // how the connection is lost: 1 local Close, 2 reset by the peer, 3 closed by the peer
		c.Params["tape_seed"] = int(br.Uint64()>>34) + j
		c.Params["fault_op"] = -3
		c.Net.Capacity = []int{16, 64, 300}[j/3%3]
		c.Batch = fmt.Sprintf("scenario-%c-stalled-server", 'a'+block/10%4)
		c.Ops = []core.Op{{Kind: "scenario", X: int64(block / 10 % 4)}}
		return c
	}
	if block%10 == 9 {
		// a block in which the client also hosts an object: it lends it to
		// the objects of the service, other clients make those relay more
		// calls to it at once than its queue holds (the client's endpoint
		// sheds them with error answers), and the connection is lost in the
		// middle of that. What the property says about the client's own
		// call, subscription and callbacks holds all the same.
		delete(c.Params, "app_close")
		c.Params["scenario"] = 2
		c.Params["crowd"] = 12 + j%5
		c.Params["stall"] = 0
		c.Params["flood_loss"] = 1 + j/5%4
		c.Net.CloseErr = 100
		c.Params["flood_delay"] = j / 15 % 45
		c.Params["tape_seed"] = int(br.Uint64()>>34) + j
		c.Params["fault_op"] = -6
		c.Batch = "client-hosts-a-crowded-object"
		c.Ops = []core.Op{{Kind: "scenario", X: 2}}
		return c
	}
	if block%10 == 5 {
		// a block in which a subscriber does not read while more events
		// arrive than its queue holds (100), a call is made, then the
		// connection is lost: the overflow must not keep the endpoint from
		// noticing (events beyond the capacity are dropped, that is the
		// contract)
		delete(c.Params, "app_close")
		c.Params["scenario"] = 2
		c.Params["flood"] = []int{90, 101, 102, 103, 130}[j%5]
		c.Params["stall"] = 0
		c.Params["flood_loss"] = 1 + j/5%3
		c.Params["flood_delay"] = j / 15 % 40
		c.Params["cancel_in_callback"] = j / 600 // the last 40 runs of the block
		c.Params["tape_seed"] = int(br.Uint64()>>34) + j
		c.Params["fault_op"] = -5
		c.Batch = "scenario-c-flooded-subscriber"
		c.Ops = []core.Op{{Kind: "scenario", X: 2}}
		return c
	}
	if block%10 == 3 {
		// a block in which the peer dies after exactly N more bytes have
		// reached the client, N = 0, 1, 2, ... from the start of the scenario
		// body: every byte position of the incoming replies and events,
		// header / payload boundaries included; clean EOF and reset alternate
		delete(c.Params, "app_close")
		c.Params["scenario"] = block / 10 % 4
		c.Params["cut"] = 1 + j/2
		c.Params["cut_reset"] = j % 2
		c.Params["fault_op"] = -4
		c.Batch = fmt.Sprintf("scenario-%c-cut-at-byte", 'a'+block/10%4)
		c.Ops = []core.Op{{Kind: "scenario", X: int64(block / 10 % 4)}}
		return c
	}
	c.Batch = fmt.Sprintf("scenario-%c", 'a'+block%4)
	if c.Params["app_close"] == 1 {
		c.Params["fault_op"] = -2
		c.Params["app_close_after"] = j % 160 // scheduling decisions before the Close
		c.Batch += "-app-close"
		if block%20 == 14 {
			// the client is one the server made itself (Server.Client: an
			// in-process connection, as the server's own session uses), and
			// what happens at the drawn moment is the end of the server
			c.Params["local_client"] = 1
			c.Batch = fmt.Sprintf("scenario-%c-local-client-server-terminated", 'a'+block%4)
		}
	} else if j >= 635 {
		c.Params["fault_op"] = -1 // fault-free run of this block
	} else {
		k := j / len(c11kinds)
		kind := c11kinds[j%len(c11kinds)]
		c.Plan = []simnet.FaultAt{{Pair: 0, Op: k, Kind: kind}}
		c.Params["fault_op"] = k
	}
	c.Ops = []core.Op{{Kind: "scenario", X: int64(block % 4)}}
	return c
}

type c11state struct {
	mu          sync.Mutex
	discClient  int
	discProxy   int
	regClient   int64 // event sequence number at which the callback was registered
	regProxy    int64
	subs        int
	subsClosed  int
	events      []int32
	connected   bool
	lateErr     error
	lateDone    bool
	pairOps     int
	earlyReply  int
	connectFail error
	callsDone   chan struct{}
	appClose    int64 // event sequence number at which the application closed the endpoint
	lossKind    string
	lateReg       int64 // a callback and a handler were registered at some moment of the run
	lateDisc      int
	lateSubClosed bool
	lateSubs, lateSubsClosed int // subscriptions granted after everything had settled
}

func (c11) Run(c *core.Case, env *core.Env) {
	st := &c11state{}
	env.Set("st", st)
	w, err := StartServer(env, bus.Dictionary(map[string]string{"u": "p"}), 1+c.P("crowd", 0))
	if err != nil {
		env.Violate("harness/setup", "%v", err)
		return
	}
	w.Impls[0].SlowMs = 20
	h := env.Invoke(0, "connect", "")
	var cl bus.Client
	if c.P("local_client", 0) == 1 {
		zzsim.SetNode("client")
		cl = w.Srv.Client()
		zzsim.SetNode("harness")
		env.Probe("clients-made-by-the-server-itself")
	} else {
		cl, err = Connect("client", "u", "p")
	}
	env.Return(h, "", err)
	if err != nil {
		st.connectFail = err
		return
	}
	st.connected = true
	// The application's callback may take its time: here it waits until the
	// scenario's calls have returned (they must not depend on it).
	callsDone := make(chan struct{})
	st.callsDone = callsDone
	blocking := c.P("blocking_cb", 0) == 1
	cl.OnDisconnect(func(err error) {
		st.mu.Lock()
		st.discClient++
		st.mu.Unlock()
		zzsim.Event("client disconnect callback")
		if blocking {
			<-callsDone
		}
	})
	st.mu.Lock()
	st.regClient = zzsim.Seq()
	st.mu.Unlock()
	var lateWG sync.WaitGroup
	defer lateWG.Wait()
	if n := c.P("late_reg", 0); n > 0 {
		lateWG.Add(1)
		go func() {
			defer lateWG.Done()
			for j := 0; j < n; j++ {
				zzsim.Yield("h.late-registration")
			}
			cl.OnDisconnect(func(error) {
				st.mu.Lock()
				st.lateDisc++
				st.mu.Unlock()
			})
			_, events, err := cl.Subscribe(w.ServiceID, 1, SigTock)
			if err != nil {
				return
			}
			seq := zzsim.Seq()
			st.mu.Lock()
			st.lateReg = seq
			st.mu.Unlock()
			go func() {
				for range events {
				}
				st.mu.Lock()
				st.lateSubClosed = true
				st.mu.Unlock()
			}()
		}()
	}
	if c.P("app_close", 0) == 1 {
		after := c.P("app_close_after", 0)
		go func() {
			for j := 0; j < after; j++ {
				zzsim.Yield("h.app-close-delay")
			}
			seq := zzsim.Seq()
			st.mu.Lock()
			st.appClose = seq
			if c.P("local_client", 0) == 1 {
				st.lossKind = "server-terminated-under-its-own-client"
			}
			st.mu.Unlock()
			if c.P("local_client", 0) == 1 {
				zzsim.Event("the server is terminated")
				zzsim.SetNode("server")
				w.Srv.Terminate()
				return
			}
			zzsim.Event("application closes the endpoint")
			cl.Channel().EndPoint().Close()
		}()
	}
	h = env.Invoke(0, "proxy", "")
	p, err := ProbeProxy(cl, w.ServiceID, 1)
	env.Return(h, "", err)
	if err == nil {
		p.Proxy().OnDisconnect(func(err error) {
			st.mu.Lock()
			st.discProxy++
			st.mu.Unlock()
		})
		st.mu.Lock()
		st.regProxy = zzsim.Seq()
		st.mu.Unlock()
		if n := c.P("flood", 0); n > 0 {
			c11flood(c, env, st, w, cl, p, n)
		} else if n := c.P("crowd", 0); n > 0 {
			c11crowd(c, env, st, w, cl, p, n)
		} else if mode := c.P("stall", 0); mode > 0 {
			conn := env.NW.Conns()[0]
			done := make(chan struct{})
			go func() {
				defer close(done)
				c11body(c, env, st, w, p, func() { conn.Peer().StallReads(true); env.Probe("server-stalled") })
			}()
			env.S.Quiesce() // the sends are blocked in the middle of their messages
			if conn.Unread() == 0 && conn.Peer().Unread() > 0 {
				env.Probe("send-blocked-mid-message")
			}
			seq := zzsim.Seq()
			st.mu.Lock()
			st.appClose = seq
			st.lossKind = []string{"", "app-close-while-send-blocked", "peer-reset-while-send-blocked", "peer-close-while-send-blocked"}[mode]
			st.mu.Unlock()
			zzsim.Event("the connection is lost while sends are blocked: mode %d", mode)
			switch mode {
			case 1:
				cl.Channel().EndPoint().Close()
			case 2:
				conn.Peer().Abort()
			default:
				conn.Peer().Close()
			}
			<-done
		} else {
			if n := c.P("cut", 0); n > 0 {
				env.NW.Conns()[0].CutIncomingAfter(n-1, c.P("cut_reset", 0) == 1)
			}
			c11body(c, env, st, w, p, func() {})
		}
	}
	close(callsDone)
	// let everything settle, then a late call on the same connection
	env.S.Quiesce()
	if p != nil {
		tok := probe.Token{Client: 9, Seq: 99, Nonce: 1, Text: "late"}
		h = env.Invoke(9, "late-echo", tokOf(tok).Key())
		ret, err := p.Echo(tok)
		env.Return(h, tokOf(ret).String(), err)
		// ... and a late subscription to the signal the scenario subscribed
		// to (or tried to): it returns, with an error if the connection is
		// lost
		h = env.Invoke(9, "subscribe-late", "tick")
		_, lch, err := p.SubscribeTick()
		env.Return(h, "", err)
		if err == nil {
			// (it may be granted without a round trip, as a further local
			// subscriber of a signal: its channel is then closed at once if
			// the connection is lost)
			st.mu.Lock()
			st.lateSubs++
			st.mu.Unlock()
			go func() {
				for range lch {
				}
				st.mu.Lock()
				st.lateSubsClosed++
				st.mu.Unlock()
			}()
		}
	} else {
		h = env.Invoke(9, "late-raw", "")
		_, err := cl.Call(nil, w.ServiceID, 1, ActNoarg, nil)
		env.Return(h, "", err)
	}
}

// c11flood: a subscriber that does not read, n events, a call, then the loss.
func c11flood(c *core.Case, env *core.Env, st *c11state, w *World, cl bus.Client, p probe.ProbeProxy, n int) {
	h := env.Invoke(1, "subscribe", "tick")
	cancel, ch, err := p.SubscribeTick()
	env.Return(h, "", err)
	if err != nil {
		return
	}
	st.mu.Lock()
	st.subs++
	st.mu.Unlock()
	if c.P("cancel_in_callback", 0) == 1 {
		// the application gives its subscription up when it learns that the
		// connection is gone (the channel must be closed all the same)
		cl.OnDisconnect(func(error) {
			zzsim.Event("subscription cancelled from the disconnect callback")
			cancel()
		})
	}
	zzsim.SetNode("server")
	for k := int32(1); k <= int32(n); k++ {
		w.Impls[0].Helper.SignalTick(k)
	}
	zzsim.SetNode("harness")
	env.S.Quiesce()
	env.Probe("subscriber-flooded")
	done := make(chan struct{})
	go func() {
		defer close(done)
		c11call(env, p, "echo", 1, 0)
	}()
	for j := 0; j < c.P("flood_delay", 0); j++ {
		zzsim.Yield("h.flood-delay")
	}
	conn := env.NW.Conns()[0]
	mode := c.P("flood_loss", 1)
	seq := zzsim.Seq()
	st.mu.Lock()
	st.appClose = seq
	st.lossKind = []string{"", "app-close-with-flooded-subscriber", "peer-reset-with-flooded-subscriber", "peer-close-with-flooded-subscriber"}[mode]
	st.mu.Unlock()
	zzsim.Event("the connection is lost (mode %d) while a subscriber's queue is full", mode)
	switch mode {
	case 1:
		cl.Channel().EndPoint().Close()
	case 2:
		conn.Peer().Abort()
	default:
		conn.Peer().Close()
	}
	<-done
	// only now does the subscriber look at its channel: it must find it closed
	// behind whatever was queued
	go func() {
		for range ch {
		}
		st.mu.Lock()
		st.subsClosed++
		st.mu.Unlock()
	}()
}

// c11crowd: the client hosts an object, lent to every object of the service;
// another client makes them all relay a call to it at once; the client has a
// subscription and a call of its own; then the loss.
func c11crowd(c *core.Case, env *core.Env, st *c11state, w *World, cl bus.Client, p probe.ProbeProxy, n int) {
	h := env.Invoke(1, "subscribe", "tick")
	_, ch, err := p.SubscribeTick()
	env.Return(h, "", err)
	if err != nil {
		return
	}
	st.mu.Lock()
	st.subs++
	st.mu.Unlock()
	go func() {
		for v := range ch {
			st.mu.Lock()
			st.events = append(st.events, v)
			st.mu.Unlock()
		}
		st.mu.Lock()
		st.subsClosed++
		st.mu.Unlock()
	}()
	zzsim.SetNode("client")
	svcRef := p.Proxy().ProxyService(nil)
	lent := &LentImpl{Env: env, Obj: 100, SlowMs: 2}
	lp, err := probe.CreateLent(nil, svcRef, lent)
	zzsim.SetNode("harness")
	if err != nil {
		env.Violate("setup/lend", "%v", err)
		return
	}
	// (the server goes through its connections in the order of the peers'
	// addresses, or the opposite one: the other client comes after or
	// before this one)
	if c.P("crowd", 0)%2 == 0 {
		env.S.Ext["channels_last_first"] = true
	}
	other, err := Connect("other", "u", "p")
	if err != nil {
		env.Violate("setup/connect", "%v", err)
		return
	}
	var relays []probe.ProbeProxy
	for i := 0; i < n && i < len(w.ObjIDs); i++ {
		q, err := ProbeProxy(cl, w.ServiceID, w.ObjIDs[i])
		if err == nil {
			err = q.Lend(lp)
		}
		if err != nil {
			env.Violate("setup/lend", "object %d: %v", i, err)
			return
		}
		r, err := ProbeProxy(other, w.ServiceID, w.ObjIDs[i])
		if err != nil {
			env.Violate("setup/proxy", "%v", err)
			return
		}
		relays = append(relays, r)
	}
	env.S.Quiesce()
	for i, r := range relays {
		go func(i int, r probe.ProbeProxy) {
			// (not judged: these are the other client's calls)
			r.Relay(probe.Token{Client: 7, Seq: int32(i), Nonce: int64(i), Text: "crowd"})
		}(i, r)
	}
	done := make(chan struct{})
	go func() {
		defer close(done)
		c11call(env, p, "echo", 1, 0)
	}()
	for j := 0; j < c.P("flood_delay", 0); j++ {
		zzsim.Yield("h.crowd-delay")
	}
	conn := env.NW.Conns()[0]
	mode := c.P("flood_loss", 1)
	seq := zzsim.Seq()
	st.mu.Lock()
	st.appClose = seq
	st.lossKind = []string{"", "app-close-with-a-crowded-hosted-object", "peer-reset-with-a-crowded-hosted-object", "peer-close-with-a-crowded-hosted-object", "server-terminated-with-a-crowded-hosted-object"}[mode]
	st.mu.Unlock()
	zzsim.Event("the connection is lost (mode %d) while the object the client hosts is crowded", mode)
	env.Probe("hosted-object-crowded")
	switch mode {
	case 1:
		cl.Channel().EndPoint().Close()
	case 2:
		conn.Peer().Abort()
	case 4:
		// the server itself is terminated, just after another of its
		// clients has vanished without it having noticed yet
		other.Channel().EndPoint().Close()
		zzsim.SetNode("server")
		w.Srv.Terminate()
		zzsim.SetNode("harness")
	default:
		conn.Peer().Close()
	}
	<-done
}

func c11call(env *core.Env, p probe.ProbeProxy, kind string, a, i int) {
	tok := probe.Token{Client: int32(a), Seq: int32(i), Nonce: int64(a*100 + i), Text: "t"}
	if env.C.P("stall", 0) > 0 {
		tok.Text = strings.Repeat("t", 400)
	}
	h := env.Invoke(a, kind, tokOf(tok).Key())
	var ret probe.Token
	var err error
	if kind == "slow" {
		ret, err = p.Slow(tok)
	} else {
		ret, err = p.Echo(tok)
	}
	env.Return(h, tokOf(ret).String(), err)
}

func c11body(c *core.Case, env *core.Env, st *c11state, w *World, p probe.ProbeProxy, stall func()) {
	switch c.P("scenario", 0) {
	case 0, 3: // one call (scenario d is the same workload: the early-reply schedule is the tape's business)
		stall()
		c11call(env, p, "echo", 1, 0)
	case 1: // three concurrent calls, one of them slow
		stall()
		var wg sync.WaitGroup
		for a := 1; a <= 3; a++ {
			wg.Add(1)
			go func(a int) {
				defer wg.Done()
				kind := "echo"
				if a == 2 {
					kind = "slow"
				}
				c11call(env, p, kind, a, 0)
			}(a)
		}
		wg.Wait()
	case 2: // subscribe + two events + call
		h := env.Invoke(1, "subscribe", "tick")
		cancel, ch, err := p.SubscribeTick()
		env.Return(h, "", err)
		_ = cancel
		if err != nil {
			return
		}
		st.mu.Lock()
		st.subs++
		st.mu.Unlock()
		go func() {
			for v := range ch {
				st.mu.Lock()
				st.events = append(st.events, v)
				st.mu.Unlock()
			}
			st.mu.Lock()
			st.subsClosed++
			st.mu.Unlock()
		}()
		stall()
		var wg sync.WaitGroup
		wg.Add(1)
		go func() {
			defer wg.Done()
			zzsim.SetNode("server")
			for n := int32(1); n <= 2; n++ {
				w.Impls[0].Helper.SignalTick(n)
			}
		}()
		c11call(env, p, "echo", 1, 0)
		wg.Wait()
	}
}

func (c11) Check(c *core.Case, env *core.Env, res zzsim.Result, v *core.Verdict) {
	st, _ := env.Get("st").(*c11state)
	if st == nil || !res.Quiescent {
		return
	}
	bad := func(class, format string, args ...interface{}) {
		v.Violations = append(v.Violations, core.Violation{Class: "C11/" + class, Detail: fmt.Sprintf(format, args...)})
	}
	fired := 0
	firedKind := ""
	for _, k := range append(append([]string(nil), c11kinds...), simnet.FCut) {
		if v.Fired[k] > 0 {
			fired += v.Fired[k]
			firedKind = k
		}
	}
	st.mu.Lock()
	appClose := st.appClose
	st.mu.Unlock()
	firstLoss := env.NW.FirstFaultSeq()
	if appClose != 0 {
		fired++
		firedKind = "app-close"
		if st.lossKind != "" {
			firedKind = st.lossKind
		}
		if firstLoss == 0 || appClose < firstLoss {
			firstLoss = appClose
		}
	}
	where := "no fault"
	if appClose != 0 {
		where = fmt.Sprintf("the application closed the client's endpoint at %d", appClose)
		if st.lossKind != "" {
			where = fmt.Sprintf("%s at %d", st.lossKind, appClose)
		}
	}
	if n := c.P("cut", 0); n > 0 {
		where = fmt.Sprintf("the incoming stream ends (reset=%d) after %d more bytes from the start of the scenario body", c.P("cut_reset", 0), n-1)
		if fired == 0 {
			where += " (never reached)"
			env.Probe("plan-not-reached")
		}
	}
	if len(c.Plan) > 0 {
		where = fmt.Sprintf("%s at I/O operation %d of the client connection", c.Plan[0].Kind, c.Plan[0].Op)
		if fired == 0 {
			where += " (never reached)"
			env.Probe("plan-not-reached")
		}
	}
	execs := env.Execs()
	byKey := map[string]int{}
	for _, e := range execs {
		if e.Key != "" {
			byKey[e.Key]++
		}
	}
	hs := env.History()
	for _, h := range hs {
		if h.Ret == 0 {
			bad("hang/"+h.Kind, "%s: operation never returned: %s", where, h)
			continue
		}
		v.OpsDone++
		switch h.Kind {
		case "echo", "slow", "late-echo":
			if h.OK {
				want := h.Arg + ":"
				if !strings.HasPrefix(h.Out, want) || !strings.Contains(h.Out, "|o0|x") {
					bad("wrong-reply", "%s: %s returned %q", where, h, h.Out)
				}
				if byKey[h.Arg] != 1 {
					bad("exec-count", "%s: %s succeeded but ran %d times", where, h, byKey[h.Arg])
				}
			} else if fired == 0 {
				bad("error-without-fault", "%s failed although the connection is healthy: %s", h, h.Err)
			}
			if byKey[h.Arg] > 1 {
				bad("exec-count", "%s: %s ran %d times", where, h, byKey[h.Arg])
			}
		case "connect", "proxy", "subscribe":
			if !h.OK && fired == 0 {
				bad("error-without-fault", "%s failed although the connection is healthy: %s", h, h.Err)
			}
		}
		if ff := firstLoss; strings.HasPrefix(h.Kind, "late") && ff != 0 && ff < h.Call && h.OK {
			bad("late-call-succeeded", "%s: a call issued after the connection was lost succeeded: %s", where, h)
		}
	}
	if fired > 0 {
		env.Probe("fault-fired-" + firedKind)
		st.mu.Lock()
		// "registered beforehand": before the fault fired
		ff := firstLoss
		if st.regClient != 0 && st.regClient < ff && st.discClient != 1 {
			bad("disconnect-callback/client", "%s: the client's disconnect callback (registered before the fault) ran %d times", where, st.discClient)
		}
		if st.regProxy != 0 && st.regProxy < ff && st.discProxy != 1 {
			bad("disconnect-callback/proxy", "%s: the proxy's disconnect callback (registered before the fault) ran %d times", where, st.discProxy)
		}
		if st.discClient > 1 || st.discProxy > 1 {
			bad("disconnect-callback/twice", "%s: disconnect callbacks ran %d and %d times", where, st.discClient, st.discProxy)
		}
		if st.regClient != 0 && st.regClient < ff {
			env.Probe("callback-registered-before-fault")
		}
		if st.subsClosed != st.subs {
			bad("subscription-not-closed", "%s: %d of %d subscription channels were closed", where, st.subsClosed, st.subs)
		}
		if st.lateSubsClosed != st.lateSubs {
			bad("subscription-not-closed/granted-after-the-loss", "%s: a subscription granted after the connection was lost has its channel still open", where)
		}
		// whenever they were registered - before, after or while the
		// connection was being lost - a callback runs once and a
		// subscription channel is closed
		if st.lateReg != 0 {
			if st.lateReg > ff {
				env.Probe("registration-after-the-loss-began")
			}
			if st.lateDisc != 1 {
				bad("disconnect-callback/registered-at-some-moment", "%s: a disconnect callback registered at %d (the loss began at %d) ran %d times", where, st.lateReg, ff, st.lateDisc)
			}
			if !st.lateSubClosed {
				bad("subscription-not-closed/registered-at-some-moment", "%s: the channel of a subscription handler registered at %d (the loss began at %d) was never closed", where, st.lateReg, ff)
			}
		}
		st.mu.Unlock()
	} else {
		st.mu.Lock()
		if st.lateDisc > 0 || st.lateSubClosed {
			bad("disconnect-callback/spurious", "a disconnect callback ran (%d times) or a subscription channel was closed (%v) on a healthy connection", st.lateDisc, st.lateSubClosed)
		}
		if st.discClient > 0 || st.discProxy > 0 {
			bad("disconnect-callback/spurious", "disconnect callbacks ran (%d, %d) on a healthy connection", st.discClient, st.discProxy)
		}
		if c.P("scenario", 0) == 2 && st.subs == 1 && fmt.Sprint(st.events) != "[1 2]" {
			bad("events-lost", "healthy connection: subscriber received %v instead of [1 2]", st.events)
		}
		st.mu.Unlock()
	}
	// probe: the reply was read by the client's endpoint before Send returned
	conns := env.NW.Conns()
	if len(conns) > 0 {
		sent, _ := conns[0].Sent()
		frames, _, _ := ref.ParseStream(sent)
		env.ProbeN("client-frames", len(frames))
		early := EarlyReplies(conns[0])
		env.ProbeN("reply-read-before-send-returned", early)
		// "a reply that arrives before the send operation has even returned
		// is still delivered to its caller" - whatever happens to the
		// connection afterwards
		// (not when the application itself closes the endpoint: its Close runs
		// in another goroutine than the one that has just read the reply and
		// may sweep the handlers before that one hands the reply over; the
		// call is then in flight at a close, and fails as the first clause
		// says. A failure of the connection, on the other hand, is noticed by
		// the reading goroutine itself, after it has handed over what it read.)
		localClose := strings.HasPrefix(firedKind, "app-close")
		for key := range EarlyReplyKeys(conns[0]) {
			if localClose {
				env.Probe("early-reply-then-local-close")
				break
			}
			for _, h := range hs {
				if h.Arg == key && (h.Kind == "echo" || h.Kind == "slow" || h.Kind == "late-echo") && h.Ret != 0 && !h.OK {
					bad("early-reply-lost", "%s: the reply of %s had been read by the client's endpoint before its Send returned, yet the call failed", where, h)
				}
			}
		}
		// "a reply that arrives before the send operation has even returned
		// is still delivered to its caller": with no fault every call succeeded
		// (checked above), so the early ones were delivered
		if early > 0 && fired == 0 {
			env.ProbeN("early-reply-delivered", early)
		}
	}
	v.Nontrivial = fired > 0 || c.P("fault_op", 0) < 0
	if v.Nontrivial {
		// distinct = (block, fault position, kind, what happened)
		v.FPs = []uint64{v.Stats.Fingerprint ^ uint64(c.P("block", 0))<<40 ^ uint64(c.P("fault_op", 0)+1)<<20}
	}
}
