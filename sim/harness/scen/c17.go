package scen

import (
	"fmt"
	"math/rand/v2"
	"sync"

	"github.com/lugu/qiloop/bus/net"

	"qsimharness/core"
	"qsimharness/ref"
	"zzsim"
	"zzsim/simnet"
)

// C17: each connection handler is closed exactly once, whatever races with
// it: closer once, then one close of the queue, no message afterwards, no
// panic, no deadlock; RemoveHandler of an unknown id is an error; ids are
// only reused after removal.
type c17 struct{}

func init() { core.Register("C17", func() core.Scenario { return c17{} }) }

func (c17) Gen(r *rand.Rand, tier string, run int) *core.Case {
	c := &core.Case{Prop: "C17", Params: map[string]int{}}
	c.Sim = baseSim(r, []string{"bus/net/endpoint.go"})
	if c.Sim.MeanGap == 0 || c.Sim.MeanGap > 200 {
		c.Sim.MeanGap = []int{5, 15, 40}[r.IntN(3)]
	}
	c.Net = simnet.Config{IOYield: r.IntN(3) != 0, ReadMode: []string{"greedy", "random"}[r.IntN(2)]}
	c.Net.Capacity = []int{0, 64, 4096}[r.IntN(3)]
	c.Net.Abortive = []int{0, 50}[r.IntN(2)]
	c.Net.EOFData = []int{0, 50}[r.IntN(2)]
	c.Net.CloseErr = []int{0, 0, 100}[r.IntN(3)]
	c.Params["peer_lazy"] = []int{0, 0, 3, 12, 1000}[r.IntN(5)] // 1000: the peer never reads
	if c.Params["peer_lazy"] > 0 {
		c.Net.Capacity = []int{16, 64}[r.IntN(2)]
	}
	c.Params["prefill"] = []int{0, 0, 0, 7, 9, 10, 11}[r.IntN(7)]
	switch r.IntN(96) {
	case 0, 1:
		// a connection that has seen a lot: the first slot of the table has
		// been given out and taken back about a thousand (two, four thousand)
		// times before the race
		c.Params["aged"] = []int{1022, 1023, 1024, 1025, 2047, 2048, 4096}[r.IntN(7)]
		c.Params["prefill"] = []int{0, 0, 7}[r.IntN(3)]
	case 2:
		// a crowded table: more than a thousand handlers are registered (and
		// stay) when the race begins
		c.Params["crowd"] = []int{1020, 1030, 1100, 2060}[r.IntN(4)]
		c.Params["prefill"] = 0
	}
	actors := 2 + r.IntN(4)
	// 0: nobody shuts down inside the race (main closes at the end); 4: the
	// peer goes away in the middle of a message; 5: the peer sends something
	// that is no message and stays
	shutdown := r.IntN(6)
	if shutdown == 5 && c.Params["peer_lazy"] >= 1000 {
		shutdown = 3
	}
	for a := 0; a < actors; a++ {
		n := 2 + r.IntN(6)
		for i := 0; i < n; i++ {
			var op core.Op
			switch k := r.IntN(10); {
			case k < 3:
				// 0 keep, 1 one-shot, 2 never-match, 3 one-shot with an unbuffered queue and a
				// lazy reader, 4 keep with an unbuffered queue and a lazy reader (so that
				// dispatch meets a full queue and answers calls with an error), 5 keep with
				// an unbuffered queue whose reader takes nothing before the close callback ran, 6 keep, registered
				// with AddHandler (a consumer function), 7 keep, whose close callback - once the
				// connection is shutting down - waits until the handler registered right after it
				// has been closed (an application that collects its notifications in an order of its own),
				// 8 a handler that gives itself up on a message it does not take (its filter answers
				// "not for me, and forget me"), 9 one-shot, whose close callback uses the end point
				// (it registers the handler that takes over)
				op = core.Op{Kind: "make", X: int64(r.IntN(10)), Y: int64(r.IntN(6))}
			case k < 6:
				op = core.Op{Kind: "remove", X: int64(r.IntN(4)), Y: int64(r.IntN(14))} // X: 0,1 own live; 2 stale/any known; 3 random id Y
			default:
				typ := 1 + r.IntN(8)
				if r.IntN(3) == 0 {
					typ = 1 // a call: dispatch answers it with an error when a queue is full
				}
				op = core.Op{Kind: "frame", X: int64(typ), Y: int64(r.IntN(40))}
			}
			op.Actor = a
			c.Ops = append(c.Ops, op)
		}
	}
	if shutdown != 0 {
		kind := []string{"", "close", "peerclose", "peerreset", "peerpartial", "peergarbage"}[shutdown]
		pos := r.IntN(len(c.Ops) + 1)
		op := core.Op{Kind: kind, Actor: r.IntN(actors)}
		c.Ops = append(c.Ops[:pos:pos], append([]core.Op{op}, c.Ops[pos:]...)...)
	}
	return c
}

type c17h struct {
	idx        int
	id         int
	kind       int
	makeCall   int64
	makeRet    int64
	closerSeqs []int64
	closeSeqs  []int64
	msgs       int
	msgAfter   bool
	removeCall int64 // first RemoveHandler(id) invoked while this handler may have been live
}

type c17rm struct {
	id        int
	call, ret int64
	err       error
}

type c17state struct {
	mu          sync.Mutex
	hs          []*c17h
	rms         []c17rm
	shutdownSeq int64 // first Close / peer close invocation
	oneShotSeq  map[int]int64
	frameSeqs   []int64
	e           net.EndPoint
	peer        *simnet.Conn
	finalClose  int64
	lostSeq     int64 // the peer ended the connection (or broke the stream) at this moment
	settled     int64 // ... and everything that followed from it had happened by this one
	// the handlers of a crowded table (nobody removes them, they match
	// nothing): identifier and the moments their close callback ran
	crowdIDs    []int
	crowdClosed [][]int64
}

func (st *c17state) lost() {
	s := zzsim.Seq()
	st.mu.Lock()
	if st.lostSeq == 0 {
		st.lostSeq = s
	}
	st.mu.Unlock()
}

func (st *c17state) markShutdown() {
	s := zzsim.Seq()
	st.mu.Lock()
	if st.shutdownSeq == 0 {
		st.shutdownSeq = s
	}
	st.mu.Unlock()
}

func (c17) Run(c *core.Case, env *core.Env) {
	st := &c17state{oneShotSeq: map[int]int64{}}
	env.Set("st", st)
	zzsim.SetNode("endpoint")
	peer, local := simnet.BufferedPair("peer", "endpoint")
	st.peer = peer
	e := net.ConnEndPoint(local)
	st.e = e
	zzsim.SetNode("harness")
	// the peer drains whatever the endpoint sends back (error replies)
	lazy := c.P("peer_lazy", 0)
	go func() {
		buf := make([]byte, 512)
		for {
			// a peer that takes its time before reading: the endpoint's
			// writes (error replies sent from dispatch) stay blocked meanwhile
			if lazy >= 1000 {
				// a stalled peer: it only notices the end of the connection
				stalled := make(chan struct{})
				<-stalled
			}
			for j := 0; j < lazy; j++ {
				zzsim.Yield("h.lazy-peer")
			}
			if _, err := peer.Read(buf); err != nil {
				return
			}
		}
	}()
	by := map[int][]core.Op{}
	var actors []int
	for _, op := range c.Ops {
		if _, ok := by[op.Actor]; !ok {
			actors = append(actors, op.Actor)
		}
		by[op.Actor] = append(by[op.Actor], op)
	}
	// handlers registered before the race, so that the registrations of the
	// race meet a table that is nearly full, full, or already grown
	if n := c.P("aged", 0); n > 0 {
		// the first and the last tenant of the slot are judged like everybody
		// (their identifiers are known to the actors, who may try them again);
		// the others come and go
		c17remove(env, st, 98, c17make(env, st, 98, 2, 0).id)
		never := func(*net.Header) (bool, bool) { return false, true }
		zzsim.Calm(true)
		for i := 0; i < n-2; i++ {
			q := make(chan *net.Message, 1)
			id := e.MakeHandler(never, q, func(error) {})
			if err := e.RemoveHandler(id); err != nil {
				env.Violate("remove-live-refused", "tenant %d of the first slot: RemoveHandler(%d) of the handler just registered, nobody else at work: %v", i+2, id, err)
				break
			}
		}
		zzsim.Calm(false)
		c17remove(env, st, 98, c17make(env, st, 98, 2, 0).id)
		env.Probe("slots-given-out-a-thousand-times-before-the-race")
	}
	if n := c.P("crowd", 0); n > 0 {
		never := func(*net.Header) (bool, bool) { return false, true }
		st.crowdIDs = make([]int, n)
		st.crowdClosed = make([][]int64, n)
		zzsim.Calm(true)
		for i := 0; i < n; i++ {
			i := i
			q := make(chan *net.Message, 1)
			st.crowdIDs[i] = e.MakeHandler(never, q, func(error) {
				seq := zzsim.Seq()
				st.mu.Lock()
				st.crowdClosed[i] = append(st.crowdClosed[i], seq)
				st.mu.Unlock()
			})
		}
		zzsim.Calm(false)
		env.Probe("tables-of-more-than-a-thousand-handlers")
	}
	for i := 0; i < c.P("prefill", 0); i++ {
		c17make(env, st, 98, 2, 0)
	}
	var wg sync.WaitGroup
	for _, a := range actors {
		wg.Add(1)
		go func(a int) {
			defer wg.Done()
			var mine []*c17h
			for _, op := range by[a] {
				switch op.Kind {
				case "make":
					mine = append(mine, c17make(env, st, a, int(op.X), int(op.Y)))
				case "remove":
					id := int(op.Y)
					if op.X < 2 && len(mine) > 0 {
						id = mine[int(op.Y)%len(mine)].id
					} else if op.X == 2 {
						st.mu.Lock()
						if len(st.hs) > 0 {
							id = st.hs[int(op.Y)%len(st.hs)].id
						}
						st.mu.Unlock()
					} else if op.Y == 13 {
						id = -1
					}
					c17remove(env, st, a, id)
				case "frame":
					f := ref.NewFrame(uint8(op.X), 1, 1, uint32(op.Y), uint32(a)<<8|uint32(op.Y), []byte{byte(a)})
					h := env.Invoke(a, "frame", f.String())
					seq := zzsim.Seq()
					st.mu.Lock()
					st.frameSeqs = append(st.frameSeqs, seq)
					st.mu.Unlock()
					_, err := peer.Write(f.Encode())
					env.Return(h, "", err)
				case "close":
					h := env.Invoke(a, "close", "")
					st.markShutdown()
					err := e.Close()
					env.Return(h, "", err)
				case "peerclose":
					h := env.Invoke(a, "peerclose", "")
					st.markShutdown()
					err := peer.Close()
					env.Return(h, "", err)
					st.lost()
				case "peerreset":
					h := env.Invoke(a, "peerreset", "")
					st.markShutdown()
					peer.Abort()
					env.Return(h, "", nil)
					st.lost()
				case "peerpartial":
					// the peer goes away in the middle of a message: a header
					// (or a part of one) whose payload never comes
					h := env.Invoke(a, "peerpartial", "")
					st.markShutdown()
					f := ref.NewFrame(ref.Call, 1, 1, 2, 0x7700, []byte("0123456789")).Encode()
					_, err := peer.Write(f[:[]int{1, 4, 27, 28, 33}[int(op.Y)%5]])
					if err == nil {
						err = peer.Close()
					}
					env.Return(h, "", err)
					st.lost()
				case "peergarbage":
					// the peer sends what is no message and stays connected
					h := env.Invoke(a, "peergarbage", "")
					st.markShutdown()
					f := ref.NewFrame(ref.Call, 1, 1, 2, 0x7701, nil).Encode()
					f[int(op.Y)%4] ^= 0x40
					_, err := peer.Write(f)
					env.Return(h, "", err)
					if err == nil {
						st.lost()
					}
				}
			}
		}(a)
	}
	if lazy >= 1000 {
		// with a stalled peer operations may be waiting for the endpoint (its
		// dispatcher is blocked writing an error reply): only a Close ends
		// that, so the final Close comes when nothing else can run
		env.S.Quiesce()
	} else {
		wg.Wait()
	}
	// when the peer ended the connection the endpoint shuts down by itself:
	// whatever follows from that has happened once nothing can run any more
	st.mu.Lock()
	lost := st.lostSeq != 0
	st.mu.Unlock()
	if lost {
		env.S.Quiesce()
		s := zzsim.Seq()
		st.mu.Lock()
		st.settled = s
		st.mu.Unlock()
	}
	// final shutdown: every handler registered before it must be closed
	h := env.Invoke(99, "final-close", "")
	st.mu.Lock()
	st.finalClose = h.Call
	if st.shutdownSeq == 0 {
		st.shutdownSeq = h.Call
	}
	st.mu.Unlock()
	err := e.Close()
	env.Return(h, "", err)
	wg.Wait()
}

func c17make(env *core.Env, st *c17state, a, kind, lazy int) *c17h {
	if kind == 7 {
		partnerClosed := make(chan struct{})
		rec := c17make2(env, st, a, 7, lazy, nil, partnerClosed)
		c17make2(env, st, a, 0, 0, partnerClosed, nil)
		env.Probe("close-callbacks-that-wait-for-another-handler")
		return rec
	}
	return c17make2(env, st, a, kind, lazy, nil, nil)
}

// c17make2: onClosed, when set, is closed once the handler's queue has been
// closed; waitFor, when set, is what the close callback waits for when it is
// called during the shutdown of the connection.
func c17make2(env *core.Env, st *c17state, a, kind, lazy int, onClosed, waitFor chan struct{}) *c17h {
	rec := &c17h{kind: kind}
	queue := make(chan *net.Message, 4)
	if kind >= 3 {
		queue = make(chan *net.Message)
	}
	st.mu.Lock()
	rec.idx = len(st.hs)
	st.hs = append(st.hs, rec)
	st.mu.Unlock()
	// kind 5: a consumer that is busy elsewhere for as long as the handler is
	// registered (it takes nothing before the close callback has run)
	released := make(chan struct{})
	filter := func(hdr *net.Header) (bool, bool) {
		switch kind {
		case 0, 4, 5, 6, 7:
			return hdr.Action%2 == 0, true
		case 8:
			if hdr.Action%5 == 0 {
				seq := zzsim.Seq()
				st.mu.Lock()
				if _, ok := st.oneShotSeq[rec.idx]; !ok {
					st.oneShotSeq[rec.idx] = seq
				}
				st.mu.Unlock()
				return false, false
			}
			return hdr.Action%2 == 0, true
		case 1, 3, 9:
			if hdr.Action%3 == 0 {
				// self-removal: from now on the handler is on its way out
				seq := zzsim.Seq()
				st.mu.Lock()
				if _, ok := st.oneShotSeq[rec.idx]; !ok {
					st.oneShotSeq[rec.idx] = seq
				}
				st.mu.Unlock()
				return true, false
			}
			return false, true
		}
		return false, true
	}
	closer := func(err error) {
		seq := zzsim.Seq()
		st.mu.Lock()
		rec.closerSeqs = append(rec.closerSeqs, seq)
		first := len(rec.closerSeqs) == 1
		st.mu.Unlock()
		if first {
			close(released)
		}
		if first && kind == 9 {
			// the application's callback registers a successor (nobody
			// judges it: it is there to use the end point from a callback)
			c17make2(env, st, 97, 2, 0, nil, nil)
			env.Probe("close-callbacks-that-use-the-end-point")
		}
		if first && waitFor != nil {
			st.mu.Lock()
			shutting := st.shutdownSeq != 0
			st.mu.Unlock()
			if shutting {
				<-waitFor
			}
		}
	}
	if kind == 6 {
		close(queue) // (not used: see below)
	}
	go func() {
		if kind == 6 {
			return
		}
		if kind == 5 {
			<-released
		} else if kind >= 3 {
			// a reader that is late: the queue looks full to dispatch
			for j := 0; j < 2+3*lazy; j++ {
				zzsim.Yield("h.lazy-reader")
			}
		}
		for range queue {
			st.mu.Lock()
			rec.msgs++
			if len(rec.closeSeqs) > 0 {
				rec.msgAfter = true
			}
			st.mu.Unlock()
		}
		seq := zzsim.Seq()
		st.mu.Lock()
		rec.closeSeqs = append(rec.closeSeqs, seq)
		st.mu.Unlock()
		if onClosed != nil {
			close(onClosed)
		}
	}()
	h := env.Invoke(a, "make", fmt.Sprintf("h%d kind=%d", rec.idx, kind))
	st.mu.Lock()
	rec.makeCall = h.Call
	st.mu.Unlock()
	var id int
	if kind == 6 {
		// registered with a consumer function: the endpoint owns the queue
		// and the goroutine that feeds the function
		id = st.e.AddHandler(filter, func(*net.Message) error {
			st.mu.Lock()
			rec.msgs++
			st.mu.Unlock()
			return nil
		}, closer)
	} else {
		id = st.e.MakeHandler(filter, queue, closer)
	}
	st.mu.Lock()
	rec.id = id
	st.mu.Unlock()
	env.Return(h, fmt.Sprintf("id=%d", id), nil)
	st.mu.Lock()
	rec.makeRet = h.Ret
	st.mu.Unlock()
	return rec
}

func c17remove(env *core.Env, st *c17state, a, id int) {
	h := env.Invoke(a, "remove", fmt.Sprintf("id=%d", id))
	st.mu.Lock()
	for _, r := range st.hs {
		if r.id == id && r.makeCall != 0 && r.removeCall == 0 {
			r.removeCall = h.Call
		}
	}
	st.mu.Unlock()
	err := st.e.RemoveHandler(id)
	env.Return(h, "", err)
	st.mu.Lock()
	st.rms = append(st.rms, c17rm{id, h.Call, h.Ret, err})
	st.mu.Unlock()
}

func (c17) Check(c *core.Case, env *core.Env, res zzsim.Result, v *core.Verdict) {
	st, _ := env.Get("st").(*c17state)
	if st == nil {
		return
	}
	bad := func(class, format string, args ...interface{}) {
		v.Violations = append(v.Violations, core.Violation{Class: "C17/" + class, Detail: fmt.Sprintf(format, args...)})
	}
	hs := env.History()
	pending := false
	for _, h := range hs {
		if h.Ret == 0 {
			bad("hang/"+h.Kind, "operation never returned (deadlock): %s", h)
			pending = true
		} else {
			v.OpsDone++
		}
	}
	if pending || !res.Quiescent {
		return
	}
	const inf = int64(1) << 62
	// end of the "definitely live" interval of a handler
	endDef := func(r *c17h) int64 {
		e := inf
		for _, s := range []int64{r.removeCall, st.shutdownSeq, st.oneShotSeq[r.idx]} {
			if s != 0 && s < e {
				e = s
			}
		}
		if r.kind == 1 || r.kind == 3 || r.kind == 8 || r.kind == 9 {
			// a one-shot handler may leave as soon as a matching frame was written
			for _, fs := range st.frameSeqs {
				if fs > r.makeCall && fs < e {
					e = fs
				}
			}
		}
		if len(r.closerSeqs) > 0 && r.closerSeqs[0] < e {
			e = r.closerSeqs[0]
		}
		// a successful RemoveHandler of this identifier that was under way
		// while the handler existed (invoked for an earlier holder of the
		// identifier, perhaps) may have taken it out of the table at any
		// moment from its registration on; its close callback comes later
		for _, rm := range st.rms {
			if rm.id == r.id && rm.err == nil && rm.ret > r.makeCall {
				at := rm.call
				if at < r.makeCall {
					at = r.makeCall
				}
				if at < e {
					e = at
				}
			}
		}
		return e
	}
	for _, r := range st.hs {
		if r.makeRet == 0 {
			continue
		}
		name := fmt.Sprintf("handler h%d (id %d, kind %d, registered [%d..%d])", r.idx, r.id, r.kind, r.makeCall, r.makeRet)
		if len(r.closerSeqs) > 1 {
			bad("closer-twice", "%s: close callback ran %d times (at %v)", name, len(r.closerSeqs), r.closerSeqs)
		}
		if len(r.closeSeqs) > 1 {
			bad("queue-closed-twice", "%s: queue closed %d times", name, len(r.closeSeqs))
		}
		if r.msgAfter {
			bad("message-after-close", "%s received a message after its queue was closed", name)
		}
		if len(r.closerSeqs) == 1 && len(r.closeSeqs) == 1 && r.closerSeqs[0] > r.closeSeqs[0] {
			bad("close-before-closer", "%s: queue closed (at %d) before the close callback ran (at %d)", name, r.closeSeqs[0], r.closerSeqs[0])
		}
		if len(r.closeSeqs) == 1 && len(r.closerSeqs) == 0 {
			bad("close-without-closer", "%s: queue closed but the close callback never ran", name)
		}
		if r.makeRet < st.shutdownSeq {
			// registered before the shutdown began: exactly once
			if len(r.closerSeqs) != 1 {
				bad("closer-not-once", "%s was registered before shutdown began (%d): close callback ran %d times", name, st.shutdownSeq, len(r.closerSeqs))
			}
			if len(r.closeSeqs) != 1 && r.kind != 6 {
				bad("queue-not-closed-once", "%s was registered before shutdown began (%d): queue closed %d times", name, st.shutdownSeq, len(r.closeSeqs))
			}
			// a shutdown caused by the peer or by the transport closes the
			// handlers without anybody calling Close
			if st.settled != 0 {
				env.Probe("handlers-judged-after-the-peer-ended-the-connection")
				if len(r.closerSeqs) == 0 || r.closerSeqs[0] > st.settled {
					bad("not-closed-when-the-connection-was-lost", "%s: the peer ended the connection at %d; when nothing could run any more (%d) the close callback had not run (it ran at %v, the application's own Close came at %d)", name, st.lostSeq, st.settled, r.closerSeqs, st.finalClose)
				}
			}
		}
	}
	// the handlers of a crowded table: nobody removes them, so their close
	// callback runs once, when the connection shuts down and not before; and
	// their identifiers are theirs alone
	crowd := map[int]int{}
	for i, id := range st.crowdIDs {
		if j, ok := crowd[id]; ok && id >= 0 {
			bad("id-reused-while-live", "handlers %d and %d of a table of %d, registered one after the other and never removed, both hold id %d", j, i, len(st.crowdIDs), id)
		}
		crowd[id] = i
		cs := st.crowdClosed[i]
		if len(cs) != 1 {
			bad("closer-not-once", "handler %d (id %d) of a table of %d handlers nobody removes: close callback ran %d times", i, id, len(st.crowdIDs), len(cs))
		} else if cs[0] < st.shutdownSeq {
			bad("closed-by-the-removal-of-another", "handler %d (id %d) of a table of %d handlers nobody removes: its close callback ran at %d, before any shutdown began (%d)", i, id, len(st.crowdIDs), cs[0], st.shutdownSeq)
		}
	}
	for _, r := range st.hs {
		if j, ok := crowd[r.id]; ok && r.makeRet != 0 && r.id >= 0 {
			bad("id-reused-while-live", "handler h%d was given id %d, which handler %d of the crowded table holds and never gave back", r.idx, r.id, j)
		}
	}
	// identifiers are only reused after removal
	for i, a := range st.hs {
		for _, b := range st.hs[i+1:] {
			if a.makeRet == 0 || b.makeRet == 0 || a.id != b.id || a.id < 0 {
				continue // (a negative number is no identifier: the endpoint was closed already)
			}
			ea, eb := endDef(a), endDef(b)
			if a.makeRet < eb && b.makeRet < ea {
				bad("id-reused-while-live", "handlers h%d and h%d both hold id %d while live ([%d..%d) and [%d..%d))", a.idx, b.idx, a.id, a.makeRet, ea, b.makeRet, eb)
			}
		}
	}
	// RemoveHandler results
	for _, rm := range st.rms {
		possibly, definitely := false, false
		for _, r := range st.hs {
			if r.id != rm.id || r.makeCall == 0 {
				continue
			}
			// possibly live: from the MakeHandler invocation until its closer ran
			end := inf
			if len(r.closerSeqs) > 0 {
				end = r.closerSeqs[0]
			}
			if r.makeCall < rm.ret && rm.call < end {
				possibly = true
			}
			// definitely live throughout, nobody else interfering
			e := inf
			for _, s := range []int64{st.shutdownSeq, st.oneShotSeq[r.idx]} {
				if s != 0 && s < e {
					e = s
				}
			}
			if r.kind == 1 || r.kind == 3 || r.kind == 8 || r.kind == 9 {
				for _, fs := range st.frameSeqs {
					if fs > r.makeCall && fs < e {
						e = fs
					}
				}
			}
			for _, o := range st.rms {
				if o.id == rm.id && o.call != rm.call && o.call < e {
					e = o.call
				}
			}
			if r.makeRet != 0 && r.makeRet < rm.call && rm.ret < e {
				definitely = true
			}
		}
		if rm.id < 0 {
			possibly = false
		}
		if rm.err == nil && !possibly {
			bad("remove-unknown-accepted", "RemoveHandler(%d) [%d..%d] returned nil although no handler with that id was live", rm.id, rm.call, rm.ret)
		}
		if rm.err != nil && definitely {
			bad("remove-live-refused", "RemoveHandler(%d) [%d..%d] failed (%v) although the handler was live and nothing else touched it", rm.id, rm.call, rm.ret, rm.err)
		}
	}
	ov := overlapping(hs)
	env.ProbeN("overlapping-ops", ov)
	for _, r := range st.hs {
		if r.removeCall != 0 && len(r.closerSeqs) > 0 {
			env.Probe("handler-removed")
		}
		if _, ok := st.oneShotSeq[r.idx]; ok {
			env.Probe("self-removal")
		}
	}
	v.Nontrivial = ov > 0 && v.Stats.Switches > 0
}
