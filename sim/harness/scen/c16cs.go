package scen

import (
	"fmt"
	"math/rand/v2"
	"strings"
	"sync"

	"github.com/lugu/qiloop/bus"
	probe "github.com/lugu/qiloop/zzprobe"

	"qsimharness/core"
	"zzsim"
)

// The client-side half of C16: objects a client hosts on a reference to a
// remote service (bus.NewServiceReference / Proxy.ProxyService). They get
// their identifiers from the reference, are reached by the service over the
// client's connection, and are removed with Service.Remove or through their
// activation.

func c16genClientSide(c *core.Case, r *rand.Rand) {
	c.Batch = "client-side-service"
	c.Params["clientside"] = 1
	c.Params["activate_yields"] = r.IntN(4)
	if r.IntN(4) == 0 {
		c.Params["cs_terminate"] = 1
		c.Params["cs_terminate_delay"] = r.IntN(30)
		c.Params["cs_terminate_victim"] = r.IntN(8)
	}
	actors := 2 + r.IntN(3)
	for a := 0; a < actors; a++ {
		n := 2 + r.IntN(4)
		for i := 0; i < n; i++ {
			var op core.Op
			switch x := r.IntN(10); {
			case x < 4:
				op = core.Op{Kind: "cadd", S: []string{"", "", "nest", "doom", "family"}[r.IntN(5)]}
			case x < 6:
				op = core.Op{Kind: []string{"cremove", "cremove", "cself"}[r.IntN(3)], X: int64(r.IntN(8))}
			default:
				op = core.Op{Kind: "ccall", X: int64(r.IntN(8))}
			}
			op.Actor = a
			c.Ops = append(c.Ops, op)
		}
	}
	if r.IntN(3) == 0 {
		// one object removed by two parties at once (one of them the object
		// itself) while others call it
		t := int64(r.IntN(2))
		kinds := [][]string{{"cremove", "cself"}, {"cself", "cself"}, {"cremove", "cremove"}}[r.IntN(3)]
		c.Ops = append(c.Ops,
			core.Op{Kind: kinds[0], Actor: 10, X: t},
			core.Op{Kind: kinds[1], Actor: 11, X: t},
			core.Op{Kind: "ccall", Actor: 11, X: t},
			core.Op{Kind: "ccall", Actor: 12, X: t},
			core.Op{Kind: "ccall", Actor: 12, X: t})
		c.Params["double_removal"] = 1
	}
}

type c16lent struct {
	slot       int
	impl       *LentImpl
	id         uint32 // returned by Add (or, for a nested child, received at activation)
	nested     bool
	addCall    int64
	addRet     int64
	lendOK     bool
	removeCall int64
	removeRets []int64
	parent     *c16lent // (a child created by its parent's activation)
}

type c16cs struct {
	mu    sync.Mutex
	lents []*c16lent
}

func c16clientSide(c *core.Case, env *core.Env, st *c16state) {
	cs := &c16cs{}
	st.cs = cs
	// one object of the service per client-hosted object: it is given the
	// reference and relays the calls
	const relays = 14
	w, err := StartServer(env, bus.Dictionary(map[string]string{"u": "p"}), relays)
	if err != nil {
		env.Violate("harness/setup", "%v", err)
		return
	}
	st.w = w
	cl, err := Connect("client0", "u", "p")
	if err != nil {
		env.Violate("setup/connect", "%v", err)
		return
	}
	var via []probe.ProbeProxy
	for _, id := range w.ObjIDs {
		q, err := ProbeProxy(cl, w.ServiceID, id)
		if err != nil {
			env.Violate("setup/proxy", "%v", err)
			return
		}
		via = append(via, q)
	}
	p := via[0]
	zzsim.SetNode("client0")
	svcRef := p.Proxy().ProxyService(nil)
	zzsim.SetNode("harness")
	ay := c.P("activate_yields", 0)
	newRec := func(nested bool) *c16lent {
		cs.mu.Lock()
		defer cs.mu.Unlock()
		rec := &c16lent{slot: 200 + len(cs.lents), nested: nested}
		rec.impl = &LentImpl{Env: env, Obj: rec.slot, ActivateYields: ay}
		cs.lents = append(cs.lents, rec)
		return rec
	}
	add := func(a int, nest, doom, family bool) {
		rec := newRec(false)
		rec.impl.SelfDoom = doom
		rec.impl.TermRemovesNest = family
		var child *c16lent
		if nest {
			child = newRec(true)
			child.parent = rec
			rec.impl.Nest = child.impl
		}
		h := env.Invoke(a, "cadd", fmt.Sprintf("slot%d nest=%v", rec.slot, nest))
		cs.mu.Lock()
		rec.addCall = h.Call
		if child != nil {
			child.addCall = h.Call
		}
		cs.mu.Unlock()
		zzsim.SetNode("client0")
		lp, err := probe.CreateLent(nil, svcRef, rec.impl)
		zzsim.SetNode("harness")
		// (identifiers are kept out of the recorded texts: the check works
		// on the records, and the texts feed the event fingerprint)
		env.Return(h, "", err)
		if err != nil {
			return
		}
		cs.mu.Lock()
		rec.id, rec.addRet = lp.Proxy().ObjectID(), h.Ret
		if doom {
			// it terminated itself before Add returned
			rec.removeCall = h.Call
			rec.removeRets = append(rec.removeRets, h.Ret)
			env.Probe("client-hosted-objects-terminating-themselves-during-activation")
		}
		if child != nil && rec.impl.NestErr == nil && rec.impl.NestID != 0 {
			child.id, child.addRet = rec.impl.NestID, h.Ret
		}
		cs.mu.Unlock()
		// make it reachable: an object of the service gets a reference to it
		if rec.slot-200 >= len(via) {
			return
		}
		h2 := env.Invoke(a, "clend", fmt.Sprintf("slot%d", rec.slot))
		err = via[rec.slot-200].Lend(lp)
		env.Return(h2, "", err)
		cs.mu.Lock()
		rec.lendOK = err == nil
		cs.mu.Unlock()
	}
	pick := func(x int64) *c16lent {
		cs.mu.Lock()
		defer cs.mu.Unlock()
		if len(cs.lents) == 0 {
			return nil
		}
		return cs.lents[int(x)%len(cs.lents)]
	}
	call := func(a, i int, rec *c16lent) {
		cs.mu.Lock()
		id, ok := rec.id, rec.lendOK
		cs.mu.Unlock()
		if !ok || rec.nested {
			return
		}
		_ = id
		tok := probe.Token{Client: int32(a), Seq: int32(i), Nonce: int64(rec.slot), Text: "t"}
		h := env.Invoke(a, "ccall", fmt.Sprintf("%s@slot%d", tokOf(tok).Key(), rec.slot))
		ret, err := via[rec.slot-200].Relay(tok)
		env.Return(h, tokOf(ret).String(), err)
	}
	remove := func(a int, kind string, rec *c16lent) {
		cs.mu.Lock()
		id := rec.id
		cs.mu.Unlock()
		if id == 0 {
			return
		}
		h := env.Invoke(a, kind, fmt.Sprintf("slot%d", rec.slot))
		cs.mu.Lock()
		if rec.removeCall == 0 {
			rec.removeCall = h.Call
		}
		cs.mu.Unlock()
		var err error
		zzsim.SetNode("client0")
		if kind == "cself" {
			if t := rec.impl.Act.Terminate; t != nil {
				t()
			} else {
				err = fmt.Errorf("no terminator")
			}
		} else {
			err = svcRef.Remove(id)
		}
		zzsim.SetNode("harness")
		env.Return(h, "", err)
		if err == nil {
			cs.mu.Lock()
			rec.removeRets = append(rec.removeRets, h.Ret)
			cs.mu.Unlock()
		}
	}
	// two objects before the race
	add(90, false, false, false)
	add(90, false, false, false)
	env.S.Quiesce()
	by := map[int][]core.Op{}
	var actors []int
	for _, op := range c.Ops {
		if _, ok := by[op.Actor]; !ok {
			actors = append(actors, op.Actor)
		}
		by[op.Actor] = append(by[op.Actor], op)
	}
	var wg sync.WaitGroup
	for _, a := range actors {
		wg.Add(1)
		go func(a int) {
			defer wg.Done()
			for i, op := range by[a] {
				switch op.Kind {
				case "cadd":
					add(a, op.S == "nest" || op.S == "family", op.S == "doom", op.S == "family")
				case "cremove", "cself":
					if rec := pick(op.X); rec != nil {
						remove(a, op.Kind, rec)
					}
				case "ccall":
					if rec := pick(op.X); rec != nil {
						call(a, i, rec)
					}
				}
			}
		}(a)
	}
	wg.Wait()
	env.S.Quiesce()
	if c.P("cs_terminate", 0) == 1 {
		// the reference to the service is terminated - every object the
		// client hosts through it goes - while somebody removes one of them
		var tw sync.WaitGroup
		var th *core.Hist
		tw.Add(2)
		go func() {
			defer tw.Done()
			th = env.Invoke(96, "cterminate-all", "")
			zzsim.SetNode("client0")
			err := svcRef.Terminate()
			zzsim.SetNode("harness")
			env.Return(th, "", err)
		}()
		go func() {
			defer tw.Done()
			for j := 0; j < c.P("cs_terminate_delay", 0); j++ {
				zzsim.Yield("h.cterminate-delay")
			}
			if rec := pick(int64(c.P("cs_terminate_victim", 0))); rec != nil {
				remove(97, "cremove", rec)
			}
		}()
		tw.Wait()
		cs.mu.Lock()
		for _, rec := range cs.lents {
			if rec.addRet != 0 && rec.addRet < th.Call && len(rec.removeRets) == 0 {
				rec.removeCall = th.Call
				rec.removeRets = append(rec.removeRets, th.Ret)
			}
		}
		cs.mu.Unlock()
		env.Probe("service-references-terminated")
		env.S.Quiesce()
	}
	// afterwards: every object is called once more
	cs.mu.Lock()
	all := append([]*c16lent(nil), cs.lents...)
	cs.mu.Unlock()
	for _, rec := range all {
		call(95, rec.slot, rec)
	}
}

func c16checkClientSide(c *core.Case, env *core.Env, res zzsim.Result, v *core.Verdict, cs *c16cs) {
	bad := func(class, format string, args ...interface{}) {
		v.Violations = append(v.Violations, core.Violation{Class: "C16/client-side/" + class, Detail: fmt.Sprintf(format, args...)})
	}
	hs := env.History()
	pending := false
	for _, h := range hs {
		if h.Ret == 0 {
			bad("hang/"+h.Kind, "operation never returned: %s", h)
			pending = true
		} else {
			v.OpsDone++
		}
	}
	if pending || !res.Quiescent {
		return
	}
	const inf = int64(1) << 62
	execs := env.Execs()
	for i, a := range cs.lents {
		if a.addRet != 0 && !a.nested && a.impl.Activated() != a.id {
			bad("add-returned-another-id", "object slot %d was activated with id %d but Add returned %d", a.slot, a.impl.Activated(), a.id)
		}
		for _, b := range cs.lents[i+1:] {
			ida, idb := a.impl.Activated(), b.impl.Activated()
			if ida == 0 || idb == 0 || ida != idb {
				continue
			}
			endA, endB := inf, inf
			if a.removeCall != 0 {
				endA = a.removeCall
			}
			if b.removeCall != 0 {
				endB = b.removeCall
			}
			if a.addCall < endB && b.addCall < endA {
				bad("id-not-unique", "objects in slots %d and %d were both activated with id %d while live", a.slot, b.slot, ida)
			}
		}
	}
	// a parent that takes its child down with it: the child's removal begins
	// with the parent's
	for _, o := range cs.lents {
		if p := o.parent; p != nil && p.impl.TermRemovesNest && p.removeCall != 0 && o.removeCall == 0 {
			o.removeCall = p.removeCall
			o.removeRets = append(o.removeRets, p.removeRets...)
		}
	}
	for _, o := range cs.lents {
		if o.addRet == 0 {
			continue
		}
		name := fmt.Sprintf("client-hosted object slot %d (id %d)", o.slot, o.id)
		terms := o.impl.Terminated()
		if terms > 1 {
			bad("terminated-twice", "%s: termination hook ran %d times", name, terms)
		}
		if len(o.removeRets) > 0 && terms == 0 {
			bad("not-terminated", "%s was removed but its termination hook never ran", name)
		}
		if o.removeCall == 0 && terms > 0 {
			bad("terminated-spuriously", "%s: termination hook ran although nobody removed the object", name)
		}
		firstRemoved := inf
		for _, r := range o.removeRets {
			if r < firstRemoved {
				firstRemoved = r
			}
		}
		if len(o.removeRets) > 0 {
			env.Probe("client-hosted-objects-removed")
		}
		for _, h := range hs {
			if h.Kind != "ccall" || !strings.HasSuffix(h.Arg, fmt.Sprintf("@slot%d", o.slot)) {
				continue
			}
			key, _, _ := strings.Cut(h.Arg, "@")
			ran := 0
			for _, e := range execs {
				if e.Key == key && e.Method == "echo" {
					ran++
					if e.Obj != o.slot {
						bad("wrong-object", "%s: call %s ran on object slot %d", name, h, e.Obj)
					}
				}
			}
			if h.Call > firstRemoved {
				if h.OK {
					bad("call-after-removal-succeeded", "%s was removed (removal returned at %d) but a later call succeeded: %s", name, firstRemoved, h)
				}
				if ran > 0 {
					bad("call-after-removal-executed", "%s was removed (removal returned at %d) but a later call reached the object: %s", name, firstRemoved, h)
				}
				env.Probe("calls-to-removed-client-hosted-objects")
			} else if o.removeCall == 0 || h.Ret < o.removeCall {
				if !h.OK && ran == 0 && strings.Contains(h.Out+h.Err, "message dropped: consumer blocked") {
					env.Probe("calls-shed-by-full-queue")
				} else if !h.OK {
					bad("live-object-refused", "%s is live but a call to it failed: %s", name, h)
				} else if ran != 1 {
					bad("live-object-exec-count", "%s: call %s ran %d times", name, h, ran)
				}
			}
			if h.OK && !strings.HasPrefix(h.Out, key+":") {
				bad("wrong-reply", "%s: %s returned %q", name, h, h.Out)
			}
		}
	}
	ov := overlapping(hs)
	env.ProbeN("overlapping-op-pairs", ov)
	v.Nontrivial = ov > 0 && v.Stats.Switches > 0
}
