package scen

import (
	"encoding/binary"
	"fmt"
	"math/rand/v2"
	"strings"
	"time"

	"github.com/lugu/qiloop/bus"
	"github.com/lugu/qiloop/bus/directory"
	"github.com/lugu/qiloop/bus/net"
	probe "github.com/lugu/qiloop/zzprobe"

	"qsimharness/core"
	"qsimharness/ref"
	"zzsim"
	"zzsim/simnet"
)

// C12: one authenticated client cannot stop a service from serving others,
// whatever it sends; the only exceptions are the requests whose documented
// purpose is removal.
type c12 struct{}

func init() { core.Register("C12", func() core.Scenario { return c12{} }) }

var c12cats = []string{"authstorm", "reg", "reg", "reg", "unreg", "unreg", "generic", "generic", "method", "dir", "type", "mutate", "mutate", "unknown", "flood", "terminate", "nested", "reauth"}

func (c12) Gen(r *rand.Rand, tier string, run int) *core.Case {
	c := &core.Case{Prop: "C12", Params: map[string]int{}}
	c.Sim = baseSim(r, []string{"bus/signal.go", "bus/object.go", "bus/service.go", "bus/net/endpoint.go"})
	c.Net = baseNet(r)
	if c.Net.ReadMode == "tiny" {
		c.Net.ReadMode = "random"
	}
	// (the runs of this scenario pass some tens of thousands of yield
	// points: one that passes millions has a goroutine spinning)
	c.Sim.YieldCap = 8000000
	c.Params["objects"] = 2 + r.IntN(2)
	c.Params["focus"] = r.IntN(3)
	c.Params["unset_level"] = r.IntN(2)
	c.Params["service_busy"] = []int{0, 0, 5, 20, 60}[r.IntN(5)]
	// sub-batches: a hostile client that keeps draining its connection, one
	// that stops reading, and one that mostly mutates valid traffic
	switch k := r.IntN(10); {
	case k < 5:
		c.Batch = "no-stall"
		c.Params["finale"] = []int{0, 2, 3}[r.IntN(3)]
	case k < 7:
		c.Batch = "stall"
		c.Params["finale"] = 1
		c.Net.Capacity = []int{64, 512, 4096}[r.IntN(3)]
	default:
		c.Batch = "mutation"
		c.Params["finale"] = []int{0, 2}[r.IntN(2)]
	}
	if c.Batch != "stall" && r.IntN(3) == 0 {
		// the fresh client does not wait for the server to have digested the
		// hostile client's traffic: it arrives while that traffic is queued
		c.Params["eager"] = 1
	}
	if r.IntN(25) == 0 {
		// a server that listens at a pipe:// address (descriptors passed over
		// a unix socket): the hostile client, authenticated on a connection of
		// its own, opens further connections and gives them up in the middle
		// of the transport's own handshake
		c.Batch = "pipe-listener"
		c.Params = map[string]int{}
		c.Sim.YieldCap = 0
		for i := 0; i < 1+r.IntN(3); i++ {
			c.Ops = append(c.Ops, core.Op{Kind: "botch", Actor: 300, X: int64(r.IntN(4)), Y: int64(r.IntN(30))})
		}
		return c
	}
	n := 3 + r.IntN(10)
	for i := 0; i < n; i++ {
		cat := c12cats[r.IntN(len(c12cats))]
		if c.Batch == "mutation" && r.IntN(2) == 0 {
			cat = "mutate"
		}
		c.Ops = append(c.Ops, core.Op{Kind: cat, Actor: 300, X: int64(r.Uint64() >> 2)})
	}
	if c.Batch == "stall" {
		c.Ops = append(c.Ops, core.Op{Kind: "flood", Actor: 300, X: int64(r.Uint64() >> 2)})
	} else if r.IntN(30) == 0 {
		at := r.IntN(len(c.Ops) + 1)
		c.Ops = append(c.Ops[:at], append([]core.Op{{Kind: "deepsig", Actor: 300, X: int64(r.Uint64() >> 2)}}, c.Ops[at:]...)...)
	} else if r.IntN(40) == 0 {
		// entries of the directory that are, together, more than a reply holds
		at := r.IntN(len(c.Ops) + 1)
		c.Ops = append(c.Ops[:at], append([]core.Op{{Kind: "bloat", Actor: 300, X: int64(r.Uint64() >> 2)}}, c.Ops[at:]...)...)
	}
	for _, op := range c.Ops {
		if (op.Kind == "nested" || op.Kind == "bloat" || op.Kind == "deepsig") && c.Batch != "stall" {
			// megabyte frames: let them through in large pieces
			c.Net.Capacity, c.Net.ReadMode = 0, "greedy"
		}
	}
	return c
}

type c12state struct {
	w           *World
	dirID       uint32
	probeSvc    uint32
	removedObjs map[uint32]bool
	removedSvcs map[uint32]bool // services the hostile client asked the directory to unregister (documented removal)
	listed      map[uint32]string
	listedOK    bool
	serviceGone bool
	sent        int
	focus       int
	raw         *Raw
	bloated     int // oversized entries the hostile client got registered and ready
	bloatIDs    []uint32
	probeSim    time.Duration // simulated time the probe phase took
	earlySim    time.Duration // ... and the early probe, if any
	listingSize int           // size of the directory's answer to services() after a failed probe, as read by a peer without a size limit
}

const c12pipeAddr = "pipe:///run/qsim-c12-fd.sock"

// c12pipe: see Gen. Nothing here is a message yet: a connection that ends
// before, or sends something else than, the descriptor the transport expects
// is the business of that connection alone.
func c12pipe(c *core.Case, env *core.Env) {
	zzsim.SetNode("server")
	l, err := net.Listen(c12pipeAddr)
	var srv bus.Server
	if err == nil {
		srv, err = bus.StandAloneServer(l, bus.Dictionary(map[string]string{"u": "p"}), bus.PrivateNamespace())
	}
	var svc bus.Service
	if err == nil {
		svc, err = srv.NewService("Probe", probe.ProbeObject(&ProbeImpl{Env: env, Obj: 0}))
	}
	zzsim.SetNode("harness")
	if err != nil {
		env.Violate("harness/setup", "%v", err)
		return
	}
	connect := func(node string) (bus.Client, error) {
		zzsim.SetNode(node)
		defer zzsim.SetNode("harness")
		_, ch, err := bus.SelectEndPoint([]string{c12pipeAddr}, "u", "p")
		if err != nil {
			return nil, err
		}
		return bus.NewClient(ch), nil
	}
	call := func(cl bus.Client, a int, what string) {
		h := env.Invoke(a, what, "")
		p, err := ProbeProxy(cl, svc.ServiceID(), 1)
		var ret probe.Token
		if err == nil {
			ret, err = p.Echo(probe.Token{Client: int32(a), Seq: 1, Nonce: 7, Text: "p"})
		}
		env.Return(h, tokOf(ret).String(), err)
	}
	h := env.Invoke(300, "hostile-connect", "")
	hcl, err := connect("hostile")
	env.Return(h, "", err)
	if err != nil {
		return
	}
	call(hcl, 300, "hostile-call")
	for _, op := range c.Ops {
		zzsim.SetNode("hostile")
		uc, err := simnet.Dial("unix", strings.TrimPrefix(c12pipeAddr, "pipe://"))
		if err != nil {
			zzsim.SetNode("harness")
			env.Note("botch: dial: %v", err)
			continue
		}
		for j := 0; j < int(op.Y); j++ {
			zzsim.Yield("h.botch")
		}
		switch op.X {
		case 0:
			// gone before anything was exchanged
			env.Probe("connections-given-up-before-the-descriptor")
		case 1:
			// a byte that carries no descriptor, then gone
			uc.Write([]byte{0})
			env.Probe("connections-sending-a-byte-without-descriptor")
		case 2:
			// reset instead of closed
			uc.Abort()
			env.Probe("connections-reset-before-the-descriptor")
		default:
			// connected, and silent from then on: it stays that way
			env.Probe("connections-that-never-send-their-descriptor")
			zzsim.SetNode("harness")
			continue
		}
		uc.Close()
		zzsim.SetNode("harness")
	}
	env.S.Quiesce()
	// the others: the hostile client's first connection is one of them
	call(hcl, 300, "hostile-call-again")
	h = env.Invoke(1, "fresh-connect", "")
	fcl, err := connect("fresh")
	env.Return(h, "", err)
	if err == nil {
		call(fcl, 1, "fresh-call")
	}
}

func c12pipeCheck(c *core.Case, env *core.Env, res zzsim.Result, v *core.Verdict) {
	silent := false
	for _, op := range c.Ops {
		silent = silent || op.X >= 3
	}
	for _, h := range env.History() {
		switch {
		case h.Ret == 0 && silent && strings.HasPrefix(h.Kind, "fresh-"):
			// cause-specific (known finding): the listener exchanges the
			// descriptors with the peer it has just accepted before it
			// accepts anybody else
			v.Violations = append(v.Violations, core.Violation{Class: "C12/pipe-listener/silent-peer-keeps-the-listener-from-accepting", Detail: fmt.Sprintf("a server listening at %s: a peer connected to the socket and never sent its descriptor; %s never returned", c12pipeAddr, h)})
		case h.Ret == 0:
			v.Violations = append(v.Violations, core.Violation{Class: "C12/pipe-listener/hang/" + h.Kind, Detail: fmt.Sprintf("a server listening at %s, connections given up during the handshake of the transport: %s never returned", c12pipeAddr, h)})
		case !h.OK:
			v.Violations = append(v.Violations, core.Violation{Class: "C12/pipe-listener/" + h.Kind + "-refused", Detail: fmt.Sprintf("a server listening at %s, connections given up during the handshake of the transport: %s", c12pipeAddr, h)})
		default:
			v.OpsDone++
		}
	}
	v.Nontrivial = true
}

func (c12) Run(c *core.Case, env *core.Env) {
	if c.Batch == "pipe-listener" {
		c12pipe(c, env)
		return
	}
	st := &c12state{removedObjs: map[uint32]bool{}, removedSvcs: map[uint32]bool{}, focus: c.P("focus", 0)}
	env.Set("st", st)
	zzsim.SetNode("server")
	srv, err := directory.NewServer(ServerAddr, bus.Dictionary(map[string]string{"u": "p"}))
	if err != nil {
		zzsim.SetNode("harness")
		env.Violate("harness/setup", "%v", err)
		return
	}
	w := &World{Env: env, Srv: srv}
	impl := &ProbeImpl{Env: env, Obj: 0}
	svc, err := srv.NewService("Probe", probe.ProbeObject(impl))
	zzsim.SetNode("harness")
	if err != nil {
		env.Violate("harness/setup", "new service: %v", err)
		return
	}
	w.Svc, w.ServiceID = svc, svc.ServiceID()
	w.Impls = append(w.Impls, impl)
	w.ObjIDs = append(w.ObjIDs, 1)
	zzsim.SetNode("server")
	for i := 1; i < c.P("objects", 2); i++ {
		if _, err := w.AddObject(); err != nil {
			zzsim.SetNode("harness")
			env.Violate("harness/setup", "%v", err)
			return
		}
	}
	zzsim.SetNode("harness")
	st.w = w
	st.dirID = 1
	st.probeSvc = w.ServiceID
	// an honest subscriber creates server-side state the hostile client can collide with
	hcl, err := Connect("honest", "u", "p")
	if err != nil {
		env.Violate("setup/connect", "%v", err)
		return
	}
	hp, err := ProbeProxy(hcl, w.ServiceID, 1)
	if err != nil {
		env.Violate("setup/proxy", "%v", err)
		return
	}
	_, ch, err := hp.SubscribeTick()
	if err != nil {
		env.Violate("setup/subscribe", "%v", err)
		return
	}
	go func() {
		for range ch {
		}
	}()
	// the hostile, authenticated client
	raw, err := DialRaw(env, "hostile", 300)
	if err != nil {
		env.Violate("harness/dial", "%v", err)
		return
	}
	if ok, err := raw.Auth("u", "p"); err != nil || !ok {
		env.Violate("setup/raw-auth", "%v %v", ok, err)
		return
	}
	st.raw = raw
	raw.MaxKeep = 1 << 16
	finale := c.P("finale", 0)
	if finale == 1 {
		raw.mu.Lock()
		raw.NoRead = true
		raw.mu.Unlock()
	}
	if n := c.P("service_busy", 0); n > 0 {
		// the service is not idle meanwhile: its objects update their
		// property and emit their signals from goroutines of their own
		for k, impl := range w.Impls {
			impl := impl
			k := k
			go func() {
				zzsim.SetNode("server")
				for i := 1; i <= n; i++ {
					impl.Helper.UpdateLevel(int32(100*k + i))
					impl.Helper.SignalTick(int32(i))
					zzsim.Yield("h.service-activity")
				}
			}()
		}
		env.Probe("service-busy")
	}
	h := env.Invoke(300, "hostile", fmt.Sprintf("%d operations, finale %d", len(c.Ops), finale))
	alive := true
	for i, op := range c.Ops {
		if !alive {
			break
		}
		r := rand.New(rand.NewPCG(uint64(op.X), uint64(i)))
		if op.Kind == "bloat" {
			// two services with names of several megabytes each (a frame
			// the server accepts), registered and declared ready: together
			// they are more than one reply can carry
			for k := 0; k < 2 && alive; k++ {
				var b ref.Buf
				b.Str(fmt.Sprintf("big%d", k) + strings.Repeat("x", 5500000+r.IntN(1000)))
				b.U32(0)
				b.Str("machine")
				b.U32(42)
				b.U32(1)
				b.Str("tcp://evil:1")
				b.Str("session")
				b.Str("uid")
				id := raw.NextID()
				if err := raw.Send(ref.NewFrame(ref.Call, st.dirID, 1, 102, id, b.Bytes())); err != nil {
					alive = false
					break
				}
				st.sent++
				f, ok := raw.WaitID(id)
				if !ok || f.Type != ref.Reply || len(f.Payload) != 4 {
					break
				}
				var rb ref.Buf
				rb.U32(uint32(f.Payload[0]) | uint32(f.Payload[1])<<8 | uint32(f.Payload[2])<<16 | uint32(f.Payload[3])<<24)
				id = raw.NextID()
				if err := raw.Send(ref.NewFrame(ref.Call, st.dirID, 1, 104, id, rb.Bytes())); err != nil {
					alive = false
					break
				}
				st.sent++
				if f, ok := raw.WaitID(id); ok && f.Type == ref.Reply {
					env.Probe("oversized-entries-registered")
					st.bloated++
					st.bloatIDs = append(st.bloatIDs, binary.LittleEndian.Uint32(rb.Bytes()))
				}
			}
			continue
		}
		for _, b := range c12frames(st, op.Kind, r) {
			if err := raw.SendBytes(b); err != nil {
				alive = false
				break
			}
			st.sent++
		}
	}
	switch finale {
	case 2:
		raw.Conn.Close()
	case 3:
		f := ref.NewFrame(ref.Call, st.probeSvc, 1, ActEcho, raw.NextID(), ref.EncodeToken(ref.Token{Text: "half"}))
		b := f.Encode()
		raw.SendBytes(b[:len(b)/2])
		raw.Conn.Abort()
	}
	env.Return(h, fmt.Sprintf("%d frames", st.sent), nil)
	// The simulated clock only moves when nothing can run: what a probe
	// costs in simulated time is time somebody spent waiting for a timer.
	if c.P("eager", 0) == 1 {
		// a first fresh client does not wait for the server to have digested
		// the hostile client's traffic: it arrives while that traffic is
		// queued, and is owed an answer of some kind from every object
		env.Probe("fresh-client-arrives-while-the-hostile-traffic-is-queued")
		t0 := time.Now()
		ecl, err := Connect("early", "u", "p")
		hc := env.Invoke(401, "probe-early-connect", "")
		env.Return(hc, "", err)
		if err == nil {
			for i, id := range w.ObjIDs {
				tok := ref.Token{Client: 401, Seq: int32(i), Nonce: int64(id), Text: "e"}
				h := env.Invoke(401, "probe-early-call", fmt.Sprintf("service %d object %d", w.ServiceID, id))
				_, err := ecl.Call(nil, w.ServiceID, id, ActEcho, ref.EncodeToken(tok))
				env.Return(h, "", err)
			}
		}
		st.earlySim = time.Since(t0)
	}
	env.S.Quiesce()
	// the probe: a fresh client calls every object
	t0 := time.Now()
	defer func() {
		st.probeSim = time.Since(t0)
	}()
	pcl, err := Connect("probe", "u", "p")
	hc := env.Invoke(400, "probe-connect", "")
	env.Return(hc, "", err)
	if err != nil {
		return
	}
	for i, id := range w.ObjIDs {
		tok := ref.Token{Client: 400, Seq: int32(i), Nonce: int64(id), Text: "p"}
		h := env.Invoke(400, "probe-call", fmt.Sprintf("service %d object %d", w.ServiceID, id))
		resp, err := pcl.Call(nil, w.ServiceID, id, ActEcho, ref.EncodeToken(tok))
		out := ""
		if err == nil {
			if t, derr := ref.DecodeToken(resp); derr == nil {
				out = t.String()
			} else {
				out = "undecodable"
			}
		}
		env.Return(h, out, err)
		if err == nil && !st.removedObjs[id] {
			// a call that makes the object tell its subscribers something: a
			// well-typed write of the property (generic action 6)
			var b ref.Buf
			b.ValStr("level")
			b.ValI32(int32(4000 + i))
			h := env.Invoke(400, "probe-write", fmt.Sprintf("service %d object %d", w.ServiceID, id))
			_, err := pcl.Call(nil, w.ServiceID, id, 6, b.Bytes())
			env.Return(h, "", err)
		}
	}
	h = env.Invoke(400, "probe-directory", "services()")
	resp, err := pcl.Call(nil, st.dirID, 1, 101, nil)
	env.Return(h, "", err)
	if err == nil {
		// which services does the directory still list?
		func() {
			defer func() { recover() }()
			rd := &ref.Rd{B: resp}
			n := rd.U32()
			listed := map[uint32]string{}
			for i := uint32(0); i < n; i++ {
				name := rd.Str()
				id := rd.U32()
				rd.Str()
				rd.U32()
				for k := rd.U32(); k > 0; k-- {
					rd.Str()
				}
				rd.Str()
				rd.Str()
				listed[id] = name
			}
			if rd.Left() == 0 && rd.Err == nil {
				st.listed, st.listedOK = listed, true
			}
		}()
	}
	if err != nil && st.bloated >= 2 {
		// how large is the answer the directory gives to services()? asked by
		// a peer that reads the frame whatever its size. The oversized
		// entries are then unregistered (the run is over: it frees them).
		zzsim.SetNode("harness")
		aud, e := DialRaw(env, "auditor", 401)
		if e == nil {
			if ok, _ := aud.Auth("u", "p"); ok {
				aud.mu.Lock()
				aud.MaxKeep = 16
				aud.mu.Unlock()
				id := aud.NextID()
				if aud.Send(ref.NewFrame(ref.Call, st.dirID, 1, 101, id, nil)) == nil {
					if f, ok := aud.WaitID(id); ok && f.Type == ref.Reply {
						st.listingSize = int(f.Size)
					}
				}
				for _, big := range st.bloatIDs {
					id := aud.NextID()
					if aud.Send(ref.NewFrame(ref.Call, st.dirID, 1, 103, id, le32(big))) == nil {
						aud.WaitID(id)
					}
				}
			}
			aud.Conn.Close()
		}
	}
}

func le32(v uint32) []byte {
	b := make([]byte, 4)
	binary.LittleEndian.PutUint32(b, v)
	return b
}

// c12frames produces the bytes of one hostile operation.
func c12frames(st *c12state, cat string, r *rand.Rand) [][]byte {
	w := st.w
	pick32 := func(vs ...uint32) uint32 { return vs[r.IntN(len(vs))] }
	obj := func() uint32 {
		return pick32(append([]uint32{0, 1, 2, 0x7fffffff, 0xffffffff}, w.ObjIDs...)...)
	}
	id := func() uint32 { return 5000 + uint32(r.IntN(1<<20)) }
	garbage := func() []byte {
		p := make([]byte, r.IntN(64))
		for i := range p {
			p[i] = byte(r.IntN(256))
		}
		return p
	}
	// subscriptions: mostly well-formed, on few user ids and signals, so that
	// repeated and conflicting registrations really collide
	regPayloadFor := func(o uint32) []byte {
		var b ref.Buf
		switch r.IntN(10) {
		case 0:
			b.U32(obj())
		case 1, 2, 3:
			b.U32(0)
		default:
			b.U32(o)
		}
		if r.IntN(7) == 0 {
			b.U32(pick32(0x56, 9999, 0))
		} else {
			b.U32(pick32(SigTick, SigTock, PropLvl))
		}
		if r.IntN(6) == 0 {
			b.U64(uint64(pick32(3, 0, 0xffffffff)))
		} else {
			b.U64(uint64(pick32(1, 2)))
		}
		return b.Bytes()
	}
	regPayload := func() []byte { return regPayloadFor(w.ObjIDs[r.IntN(len(w.ObjIDs))]) }
	target := func() (uint32, uint32) {
		if r.IntN(4) == 0 {
			return st.dirID, 1
		}
		return st.probeSvc, w.ObjIDs[r.IntN(len(w.ObjIDs))]
	}
	switch cat {
	case "reg", "unreg":
		act := uint32(0)
		if cat == "unreg" {
			act = 1
		}
		var out [][]byte
		for i := 0; i < 1+r.IntN(3); i++ {
			s, o := target()
			if r.IntN(4) != 0 {
				// most of the time the same object, so that sequences build up on it
				s, o = st.probeSvc, w.ObjIDs[st.focus%len(w.ObjIDs)]
			}
			out = append(out, ref.NewFrame(uint8(pick32(ref.Call, ref.Call, ref.Call, ref.Post)), s, o, act, id(), regPayloadFor(o)).Encode())
		}
		return out
	case "generic":
		s, o := target()
		if r.IntN(8) == 0 {
			// terminate whose argument names another object than the one it is
			// sent to (of the server's or of a client's range): names nothing
			// this object may remove
			x := pick32(append([]uint32{1, 2, 0x7fffffff, 0x80000000, 0x80000001, 0xfffffffe, 0xffffffff, o + 1, o | 0x80000000}, w.ObjIDs...)...)
			if x != o && x != 0 {
				var b ref.Buf
				b.U32(x)
				return [][]byte{ref.NewFrame(uint8(pick32(ref.Call, ref.Post)), s, o, 3, id(), b.Bytes()).Encode()}
			}
		}
		act := pick32(2, 5, 6, 7, 8, 80, 81, 82, 83, 84, 85, 5, 5, 6)
		var p []byte
		k := r.IntN(6)
		if act == 5 || act == 6 {
			k = 2 + r.IntN(4)
		}
		switch k {
		case 0:
			p = garbage()
		case 1:
			p = nil
		case 2:
			var b ref.Buf
			b.ValStr("level")
			b.ValI32(int32(r.IntN(100)) - 50)
			p = b.Bytes()
		case 3:
			var b ref.Buf
			b.U32(o)
			p = b.Bytes()
		default:
			// well-formed arguments of the generic action, with names and
			// ids that exist, that do not, and of the wrong kind
			var b ref.Buf
			name := func() {
				switch r.IntN(6) {
				case 0:
					b.ValStr("level")
				case 1:
					b.ValU32(PropLvl)
				case 2:
					b.ValStr("nope")
				case 3:
					b.ValU32(pick32(0, SigTick, ActEcho, 12345))
				case 4:
					b.ValI32(int32(PropLvl))
				default:
					b.ValBool(true)
				}
			}
			switch act {
			case 5: // property(name)
				name()
			case 6: // setProperty(name, value)
				name()
				switch r.IntN(3) {
				case 0:
					b.ValI32(int32(r.IntN(100)) - 50)
				case 1:
					b.ValStr("x")
				default:
					b.ValU32(7)
				}
			case 8: // registerEventWithSignature(object, action, handler, signature)
				b.U32(o)
				b.U32(pick32(SigTick, SigTock, PropLvl, 9999))
				b.U64(uint64(r.IntN(4)))
				b.Str([]string{"(i)", "i", "", "(s)"}[r.IntN(4)])
			case 81, 85: // enableStats / enableTrace
				b.U8(uint8(r.IntN(2)))
			case 2: // metaObject(object)
				b.U32(pick32(o, 0, 1, 0xffffffff))
			}
			p = b.Bytes()
		}
		return [][]byte{ref.NewFrame(uint8(pick32(ref.Call, ref.Post)), s, o, act, id(), p).Encode()}
	case "terminate":
		// documented removal: terminate an object other than the service's main object
		if len(w.ObjIDs) < 2 {
			return nil
		}
		o := w.ObjIDs[1+r.IntN(len(w.ObjIDs)-1)]
		var b ref.Buf
		b.U32(o)
		st.removedObjs[o] = true
		return [][]byte{ref.NewFrame(ref.Call, st.probeSvc, o, 3, id(), b.Bytes()).Encode()}
	case "method":
		_, o := target()
		act := pick32(ActEcho, ActFire, ActNoarg, ActSlow)
		p := ref.EncodeToken(ref.Token{Client: 300, Seq: int32(r.IntN(100)), Text: "x"})
		if r.IntN(2) == 0 {
			p = garbage()
		}
		return [][]byte{ref.NewFrame(uint8(pick32(ref.Call, ref.Post)), st.probeSvc, o, act, id(), p).Encode()}
	case "dir":
		act := 100 + uint32(r.IntN(10))
		var b ref.Buf
		switch act {
		case 102, 105: // registerService / updateServiceInfo with a (mal)formed ServiceInfo
			b.Str([]string{"Evil", "Probe", "ServiceDirectory", ""}[r.IntN(4)])
			b.U32(pick32(0, 1, st.probeSvc, 77))
			b.Str("machine")
			b.U32(pick32(0, 42))
			n := pick32(0, 1, 2)
			b.U32(n)
			for i := uint32(0); i < n; i++ {
				b.Str("tcp://evil:1")
			}
			b.Str("session")
			if r.IntN(3) != 0 {
				b.Str("uid")
			}
		case 103, 104, 109:
			// unregisterService of a live service is a documented removal:
			// it may only remove the entry it names
			x := pick32(0, 77, 0xffffffff, 3, 4, 0, 77)
			if act == 103 && r.IntN(4) == 0 {
				x = pick32(st.probeSvc, st.dirID)
				st.removedSvcs[x] = true
			}
			b.U32(x)
		case 100:
			b.Str([]string{"Probe", "Nope", ""}[r.IntN(3)])
		}
		p := b.Bytes()
		if r.IntN(5) == 0 {
			p = garbage()
		}
		return [][]byte{ref.NewFrame(uint8(pick32(ref.Call, ref.Post)), st.dirID, 1, act, id(), p).Encode()}
	case "type":
		s, o := target()
		return [][]byte{ref.NewFrame(uint8(1+r.IntN(8)), s, o, pick32(0, 1, 2, 5, 6, ActEcho, ActNoarg, 101, 9999), id(), garbage()).Encode()}
	case "authstorm":
		// a series of authentication requests that are refused (wrong token,
		// credentials of the wrong type), sent without waiting
		var out [][]byte
		for i := 0; i < 3+r.IntN(12); i++ {
			var p []byte
			switch r.IntN(3) {
			case 0:
				p = ref.AuthPayload("u", "wrong")
			case 1:
				p = ref.AuthPayload("nobody", "p")
			default:
				var b ref.Buf
				b.U32(2)
				b.Str("auth_user")
				b.ValI32(7)
				b.Str("auth_token")
				b.ValI32(8)
				p = b.Bytes()
			}
			out = append(out, ref.NewFrame(uint8(pick32(ref.Call, ref.Post)), 0, 0, 8, id(), p).Encode())
		}
		return out
	case "reauth":
		// the client authenticates again (good, bad or malformed credentials)
		// and goes on talking without waiting for the verdict
		var p []byte
		switch r.IntN(4) {
		case 0:
			p = ref.AuthPayload("u", "p")
		case 1:
			p = ref.AuthPayload("u", "wrong")
		case 2:
			p = ref.AuthPayload("", "")
		default:
			p = garbage()
		}
		out := [][]byte{ref.NewFrame(uint8(pick32(ref.Call, ref.Call, ref.Post)), 0, 0, 8, id(), p).Encode()}
		for i := 0; i < 1+r.IntN(3); i++ {
			s, o := target()
			out = append(out, ref.NewFrame(ref.Call, s, o, pick32(ActNoarg, 2, 101), id(), nil).Encode())
		}
		return out
	case "unknown":
		return [][]byte{ref.NewFrame(ref.Call, pick32(st.probeSvc, st.dirID, 0, 9, 0xffffffff), obj(), pick32(4, 9, 99, 9999, 0xffffffff), id(), garbage()).Encode()}
	case "mutate":
		// a valid frame with one 32 bit field of the payload replaced
		var p []byte
		s, o, act := st.probeSvc, w.ObjIDs[r.IntN(len(w.ObjIDs))], uint32(0)
		switch r.IntN(5) {
		case 0:
			p = regPayload()
		case 1:
			act = 6
			var b ref.Buf
			b.ValStr("level")
			b.ValI32(5)
			p = b.Bytes()
		case 2:
			s, o, act = st.dirID, 1, 102
			var b ref.Buf
			b.Str("Mut")
			b.U32(0)
			b.Str("machine")
			b.U32(42)
			b.U32(1)
			b.Str("tcp://evil:1")
			b.Str("session")
			b.Str("uid")
			p = b.Bytes()
		case 3:
			act = ActEcho
			p = ref.EncodeToken(ref.Token{Client: 300, Seq: 1, Nonce: 2, Text: "mutated"})
		default:
			act = 5
			var b ref.Buf
			b.ValStr("level")
			p = b.Bytes()
		}
		if len(p) >= 4 {
			off := 4 * r.IntN(len(p)/4)
			copy(p[off:], le32(pick32(0, 0x7fffffff, 0xffffffff, 0x80000000, 0x00ffffff)))
		}
		return [][]byte{ref.NewFrame(ref.Call, s, o, act, id(), p).Encode()}
	case "nested":
		// a dynamic value made of lists nested as deep as the frame allows,
		// each announcing the largest count the decoder tolerates: eleven
		// bytes per level on the wire
		_, o := target()
		depth := []int{50, 2000, 50, 2000, 50, 2000, 50, 2000, 120000}[int(r.Uint32())%9]
		var b ref.Buf
		if r.IntN(2) == 0 {
			b.ValStr("level") // setProperty(name, value) / property(name) with a trailing value
		}
		for i := 0; i < depth; i++ {
			b.Str("[m]")
			b.U32(4096)
		}
		return [][]byte{ref.NewFrame(uint8(pick32(ref.Call, ref.Post)), st.probeSvc, o, pick32(5, 6, 6), id(), b.Bytes()).Encode()}
	case "deepsig":
		// a dynamic value whose signature nests lists as deep as a frame
		// allows (two bytes per level), or announces a count out of
		// proportion with its four bytes of data
		_, o := target()
		var b ref.Buf
		b.ValStr("level")
		k := int(r.Uint32()) % 24
		switch {
		case k == 23:
			// structures nested in structures: a few dozen bytes
			depth := 18
			b.Str(strings.Repeat("(", depth) + "i" + strings.Repeat(")", depth))
			b.U32(0)
		case k%8 < 6:
			depth := []int{300, 30000, 300, 30000, 400000, 4000000}[k%8]
			b.Str(strings.Repeat("[", depth) + "i" + strings.Repeat("]", depth))
			b.U32(0)
		default:
			// elements that take no room on the wire: nothing, empty
			// structures, pairs of nothing
			if k%8 == 7 {
				b.Str("[[v]]")
				b.U32(0xfffffff0)
				b.U32(0xfffffff0)
			} else {
				b.Str([]string{"[v]", "[()]", "{vv}"}[k/8])
				b.U32(0xfffffff0)
			}
		}
		return [][]byte{ref.NewFrame(uint8(pick32(ref.Call, ref.Call, ref.Post)), st.probeSvc, o, 6, id(), b.Bytes()).Encode()}
	case "flood":
		n := 10 + r.IntN(290)
		var out [][]byte
		for i := 0; i < n; i++ {
			_, o := target()
			out = append(out, ref.NewFrame(ref.Call, st.probeSvc, o, ActNoarg, id(), nil).Encode())
		}
		return out
	}
	return nil
}

// StepCapReached: the hostile client sends a few hundred small frames at
// most and the runs of this scenario take a few thousand scheduling steps; one
// that exhausts three hundred thousand has a goroutine of the server spinning.
func (c12) StepCapReached(c *core.Case, env *core.Env, last zzsim.GInfo) *core.Violation {
	if last.Node != "server" {
		return nil
	}
	file := last.Site
	if i := strings.LastIndex(file, ":"); i > 0 {
		file = file[:i]
	}
	return &core.Violation{Class: "C12/server-spins@" + file,
		Detail: fmt.Sprintf("the run used up its budget (%d scheduling steps, eight million yield points) with goroutine %s of the server still running at %s: the server spends unbounded processor time on a bounded number of small frames, and the object it belongs to answers nobody meanwhile", c.Sim.StepCap, last.Name, last.Site)}
}

func (c12) Check(c *core.Case, env *core.Env, res zzsim.Result, v *core.Verdict) {
	if c.Batch == "pipe-listener" {
		c12pipeCheck(c, env, res, v)
		return
	}
	st, _ := env.Get("st").(*c12state)
	if st == nil || st.w == nil {
		return
	}
	bad := func(class, format string, args ...interface{}) {
		v.Violations = append(v.Violations, core.Violation{Class: "C12/" + class, Detail: fmt.Sprintf(format, args...)})
	}
	hs := env.History()
	// why would an operation be stuck? look at what the server's goroutines wait for
	var where, all []string
	cause := func() string {
		inWrite, inLock := 0, 0
		where = nil
		all = nil
		for _, g := range env.Alive {
			if g.Node != "server" {
				continue
			}
			all = append(all, g.Name+"@"+g.Site)
			if strings.HasPrefix(g.Site, "net.Write.blocked") {
				inWrite++
				where = append(where, g.Name+"@"+g.Site)
			}
			if strings.HasPrefix(g.Site, "sync.Mutex.Lock") || strings.HasPrefix(g.Site, "sync.RWMutex") {
				inLock++
				where = append(where, g.Name+"@"+g.Site)
			}
		}
		switch {
		case inWrite > 0 && c.P("finale", 0) == 1:
			return "server-blocked-writing-to-stalled-peer"
		case inLock > 0:
			return "server-deadlocked-on-lock"
		case inWrite > 0:
			return "server-blocked-in-write"
		}
		return "other"
	}
	probes := 0
	for _, h := range hs {
		if h.Ret == 0 {
			switch {
			case strings.HasPrefix(h.Kind, "probe"):
				cs := cause()
				bad("probe-unanswered/"+cs, "after the hostile client's %d frames (finale %d) a fresh client's request was never answered: %s\n  blocked server goroutines: %s\n  all server goroutines: %s", st.sent, c.P("finale", 0), h, strings.Join(where, ", "), strings.Join(all, ", "))
			case h.Kind == "hostile":
				// the hostile client itself is stuck writing: its own problem
			default:
				bad("hang/"+h.Kind+"/"+cause(), "operation never returned: %s", h)
			}
			continue
		}
		v.OpsDone++
		if h.Kind == "probe-connect" && !h.OK {
			bad("probe-refused", "a fresh client could not connect and authenticate: %s", h.Err)
		}
		if h.Kind == "probe-call" {
			probes++
			var id uint32
			fmt.Sscanf(h.Arg, "service %d object %d", new(uint32), &id)
			if !st.removedObjs[id] && !h.OK {
				bad("live-object-refuses", "object %d was not removed but a fresh client's call failed: %s", id, h.Err)
			}
			if h.OK && !strings.Contains(h.Out, ":p|o") {
				bad("probe-wrong-reply", "probe call returned %q", h.Out)
			}
		}
		if h.Kind == "probe-write" && !h.OK {
			var id uint32
			fmt.Sscanf(h.Arg, "service %d object %d", new(uint32), &id)
			if !st.removedObjs[id] {
				bad("live-object-refuses-a-write", "object %d was not removed but a fresh client's well-typed write of its property failed: %s", id, h.Err)
			}
		}
		if h.Kind == "probe-directory" && !h.OK {
			if st.bloated >= 2 && st.listingSize > 10<<20 {
				// cause-specific: the hostile client had two entries of more
				// than five megabytes each registered and declared ready, and
				// the directory's answer to services() is, as measured by a
				// peer that reads frames of any size, more than a message
				// may carry: no client of the library can receive it
				bad("directory-refuses/listing-larger-than-a-message", "the hostile client registered %d entries with names of 5.5 MB; the directory's answer to services() no longer fits a message (%d bytes) and a fresh client's connection refuses it: %s", st.bloated, st.listingSize, h.Err)
			} else {
				bad("directory-refuses", "the directory no longer answers a fresh client: %s", h.Err)
			}
		}
		if h.Kind == "probe-directory" && h.OK {
			if !st.listedOK {
				bad("directory-list-undecodable", "the directory's list of services cannot be decoded")
			} else {
				for _, id := range []uint32{st.dirID, st.probeSvc} {
					if _, ok := st.listed[id]; !ok && !st.removedSvcs[id] {
						bad("service-delisted", "service %d is no longer listed by the directory although nobody asked to unregister it (listed: %v, unregistered on request: %v)", id, st.listed, st.removedSvcs)
					}
					if st.removedSvcs[id] {
						env.Probe("service-unregistered-by-the-hostile-client")
					}
				}
			}
		}
	}
	if st.raw != nil && zzsimTracing(env) {
		for _, rf := range st.raw.Frames() {
			if rf.F.Type == ref.Error {
				env.Note("hostile received error id=%d len=%d: %s", rf.F.ID, len(rf.F.Payload), ref.ErrorText(rf.F.Payload))
			}
		}
	}
	env.ProbeN("hostile-frames", st.sent)
	for _, h := range hs {
		if h.Kind == "probe-early-connect" && !h.OK {
			bad("early-probe-refused", "a fresh client arriving while the hostile client's traffic was queued could not connect and authenticate: %s", h.Err)
		}
		if h.Kind == "probe-early-call" && h.Ret != 0 {
			env.Probe("early-probe-calls-answered")
		}
	}
	if st.earlySim > 0 {
		env.Probe("early-probe-took-simulated-time")
	}
	// bounded time: nothing in the scenario sleeps, so the requests of the
	// fresh clients cost processor time only, which the simulated clock does
	// not count; when they cost seconds of it somebody made them wait for
	// timers set on behalf of the hostile client's traffic
	if d := st.earlySim + st.probeSim; d > 2*time.Second {
		bad("fresh-client-waits", "the requests of the fresh clients took %v of simulated time (early client %v, probe %v) after the hostile client's %d frames: the clock only moves when nothing can run, so the server made them wait for timers", d, st.earlySim, st.probeSim, st.sent)
	}
	switch ms := st.probeSim.Milliseconds(); {
	case ms == 0:
		env.Probe("probe-phase-took-no-simulated-time")
	case ms <= 100:
		env.Probe("probe-phase-took-up-to-100-simulated-ms")
	case ms <= 1000:
		env.Probe("probe-phase-took-up-to-1-simulated-s")
	default:
		env.Probe("probe-phase-took-more-than-1-simulated-s")
	}
	env.ProbeN("probe-calls-answered", probes)
	v.Nontrivial = st.sent > 0 && probes > 0
}

func zzsimTracing(env *core.Env) bool { return true }
