package scen

import (
	"bufio"
	"bytes"
	"fmt"
	"hash/fnv"
	"io"
	"math/rand/v2"
	"reflect"

	"github.com/lugu/qiloop/bus"
	"github.com/lugu/qiloop/bus/directory"
	"github.com/lugu/qiloop/bus/net"
	"github.com/lugu/qiloop/meta/signature"
	"github.com/lugu/qiloop/type/encoding"
	"github.com/lugu/qiloop/type/object"
	"github.com/lugu/qiloop/type/value"
	probe "github.com/lugu/qiloop/zzprobe"

	"qsimharness/core"
	"qsimharness/ref"
	"qsimharness/sio"
	"zzsim"
)

// C08: a truncated encoding is never accepted. The peer dies mid-encoding:
// for each sampled valid encoding, every cut position x every way the end of
// the stream can manifest x two fragmentations, for each decoder that reads
// from an io.Reader.
type c08 struct{}

func init() { core.Register("C08", func() core.Scenario { return c08{} }) }

var c08kinds = []string{"message", "value", "typed", "metaobject", "objref", "serviceinfo", "capmap", "govalue", "value", "typed", "govalue"}

func (c08) Gen(r *rand.Rand, tier string, run int) *core.Case {
	c := &core.Case{Prop: "C08", Params: map[string]int{}}
	c.Sim = zzsim.Config{AuxSeed: r.Uint64()}
	n := 4 + r.IntN(5)
	for i := 0; i < n; i++ {
		c.Ops = append(c.Ops, core.Op{Kind: c08kinds[r.IntN(len(c08kinds))], X: int64(r.Uint64() >> 1), Y: int64(r.IntN(7))})
	}
	return c
}

type gvInner struct {
	A int32
	S string
	F float64
}

type gvOuter struct {
	N  uint16
	In gvInner
	L  []string
	M  map[string]int32
	B  bool
	V  []gvInner
	T  probe.Token
}

type gvPtr struct {
	A int32
	P *int32
	S *string
	I *gvInner
}

type gvPair struct {
	K uint8
	S string
}

// c08decoder decodes one encoding from r and reports failure.
type c08decoder func(r io.Reader) error

// c08build produces a valid encoding of the kind and the decoder for it.
func c08build(kind string, r *rand.Rand, variant int) (enc []byte, dec c08decoder, desc string, err error) {
	g := sio.SigGen{R: r}
	var buf bytes.Buffer
	switch kind {
	case "message":
		size := []int{0, 1, 5, 28, 100, 700}[r.IntN(6)]
		if r.IntN(8) == 0 {
			// beyond any plausible chunk size of the payload read path
			size = []int{4096, 65536, 65537, 65536 + 4096, 200000}[r.IntN(5)]
		}
		p := make([]byte, size)
		for i := range p {
			p[i] = byte(r.IntN(256))
		}
		f := ref.NewFrame(uint8(1+r.IntN(8)), r.Uint32(), r.Uint32(), r.Uint32(), r.Uint32(), p)
		return f.Encode(), func(rd io.Reader) error { var m net.Message; return m.Read(rd) }, "message " + f.String(), nil
	case "value":
		sig := g.Sig(2 + variant%2)
		if r.IntN(12) == 0 {
			sig = c08largeSig(&g, r)
		}
		var b ref.Buf
		if r.IntN(300) == 0 {
			sig = c08huge(&b, r, true)
			return b.Bytes(), func(rd io.Reader) error { _, e := value.NewValue(rd); return e }, "value of signature " + sig + " (huge)", nil
		}
		b.Str(sig)
		g.Data(sig, &b, 3)
		return b.Bytes(), func(rd io.Reader) error { _, e := value.NewValue(rd); return e }, "value of signature " + sig, nil
	case "typed":
		sig := g.Sig(2 + variant%2)
		if r.IntN(12) == 0 {
			sig = c08largeSig(&g, r)
		}
		var b ref.Buf
		if r.IntN(300) == 0 {
			sig = c08huge(&b, r, false)
		} else {
			g.Data(sig, &b, 3)
		}
		tr, e := signature.MakeReader(sig)
		if e != nil {
			return nil, nil, "", fmt.Errorf("MakeReader(%q): %v", sig, e)
		}
		return b.Bytes(), func(rd io.Reader) error { _, e := tr.Read(rd); return e }, "typed data of signature " + sig, nil
	case "metaobject", "objref":
		mo := object.MetaObject{Description: g.Str(), Methods: map[uint32]object.MetaMethod{}, Signals: map[uint32]object.MetaSignal{}, Properties: map[uint32]object.MetaProperty{}}
		if r.IntN(4) != 0 {
			id := r.Uint32() >> 20
			mm := object.MetaMethod{Uid: id, ReturnSignature: g.Sig(1), Name: g.Str(), ParametersSignature: "(" + g.Sig(1) + ")", Description: g.Str(),
				ReturnDescription: g.Str()}
			for i := 0; i < r.IntN(3); i++ {
				mm.Parameters = append(mm.Parameters, object.MetaMethodParameter{Name: g.Str(), Description: g.Str()})
			}
			mo.Methods[id] = mm
		}
		if r.IntN(3) != 0 {
			id := r.Uint32() >> 20
			mo.Signals[id] = object.MetaSignal{Uid: id, Name: g.Str(), Signature: g.Sig(1)}
		}
		if r.IntN(3) != 0 {
			id := r.Uint32() >> 20
			mo.Properties[id] = object.MetaProperty{Uid: id, Name: g.Str(), Signature: g.Sig(1)}
		}
		if kind == "metaobject" {
			if e := object.WriteMetaObject(mo, &buf); e != nil {
				return nil, nil, "", e
			}
			return buf.Bytes(), func(rd io.Reader) error { _, e := object.ReadMetaObject(rd); return e }, "meta-object", nil
		}
		or := object.ObjectReference{MetaObject: mo, ServiceID: r.Uint32(), ObjectID: r.Uint32()}
		if e := object.WriteObjectReference(or, &buf); e != nil {
			return nil, nil, "", e
		}
		return buf.Bytes(), func(rd io.Reader) error { _, e := object.ReadObjectReference(rd); return e }, "object reference", nil
	case "serviceinfo":
		si := directory.ServiceInfo{Name: g.Str(), ServiceId: r.Uint32(), MachineId: g.Str(), ProcessId: r.Uint32(), SessionId: g.Str(), ObjectUid: g.Str()}
		for i := 0; i < r.IntN(4); i++ {
			si.Endpoints = append(si.Endpoints, "tcp://"+g.Str())
		}
		if e := directory.WriteServiceInfo(si, &buf); e != nil {
			return nil, nil, "", e
		}
		return buf.Bytes(), func(rd io.Reader) error { _, e := directory.ReadServiceInfo(rd); return e }, "service info", nil
	case "capmap":
		m := bus.CapabilityMap{}
		for i := 0; i < r.IntN(5); i++ {
			var v value.Value
			switch r.IntN(5) {
			case 0:
				v = value.Bool(r.IntN(2) == 0)
			case 1:
				v = value.String(g.Str())
			case 2:
				v = value.Uint(r.Uint32())
			case 3:
				v = value.List([]value.Value{value.Int(int32(r.Uint32())), value.String(g.Str())})
			default:
				v = value.Long(int64(r.Uint64()))
			}
			m[g.Str()+string(rune('0'+i))] = v
		}
		if e := bus.WriteCapabilityMap(m, &buf); e != nil {
			return nil, nil, "", e
		}
		return buf.Bytes(), func(rd io.Reader) error { _, e := bus.ReadCapabilityMap(rd); return e }, "capability map", nil
	case "govalue":
		inner := func() gvInner { return gvInner{int32(r.Uint32()), g.Str(), r.Float64()} }
		var x interface{}
		switch variant {
		case 0:
			x = &probe.Token{Client: int32(r.Uint32()), Seq: int32(r.Uint32()), Nonce: int64(r.Uint64()), Text: g.Str()}
		case 1:
			v := inner()
			x = &v
		case 2:
			o := gvOuter{N: uint16(r.IntN(65536)), In: inner(), B: r.IntN(2) == 0, M: map[string]int32{}, T: probe.Token{Text: g.Str()}}
			for i := 0; i < r.IntN(3); i++ {
				o.L = append(o.L, g.Str())
			}
			if r.IntN(2) == 0 {
				o.M[g.Str()] = int32(r.Uint32())
			}
			for i := 0; i < r.IntN(3); i++ {
				o.V = append(o.V, inner())
			}
			x = &o
		case 6:
			// fields that are pointers: the encoder writes what they point
			// to, a fresh value has them nil
			n, str, in := int32(r.Uint32()), g.Str(), inner()
			x = &gvPtr{A: int32(r.Uint32()), P: &n, S: &str, I: &in}
		case 4, 5:
			// a struct type nobody has decoded before in this process (the name
			// of its fields comes from the case), so that whatever the decoder
			// remembers about a type is learnt within this very operation
			pool := []reflect.Type{reflect.TypeOf(int32(0)), reflect.TypeOf(""), reflect.TypeOf(float64(0)), reflect.TypeOf([]string(nil)), reflect.TypeOf(gvInner{}), reflect.TypeOf(uint8(0)), reflect.TypeOf(int64(0))}
			tag := fmt.Sprintf("%x", r.Uint64())
			var fs []reflect.StructField
			for i := 0; i < 2+r.IntN(4); i++ {
				fs = append(fs, reflect.StructField{Name: fmt.Sprintf("F%s_%d", tag, i), Type: pool[r.IntN(len(pool))]})
			}
			pv := reflect.New(reflect.StructOf(fs))
			for i := range fs {
				f := pv.Elem().Field(i)
				switch f.Kind() {
				case reflect.Int32, reflect.Int64:
					f.SetInt(int64(int32(r.Uint32())))
				case reflect.Uint8:
					f.SetUint(uint64(r.IntN(256)))
				case reflect.String:
					f.SetString(g.Str())
				case reflect.Float64:
					f.SetFloat(r.Float64())
				case reflect.Slice:
					f.Set(reflect.ValueOf([]string{g.Str(), g.Str()}))
				case reflect.Struct:
					f.Set(reflect.ValueOf(inner()))
				}
			}
			x = pv.Interface()
		default:
			l := []gvPair{}
			for i := 0; i < 1+r.IntN(3); i++ {
				l = append(l, gvPair{uint8(r.IntN(256)), g.Str()})
			}
			x = &l
		}
		e := encoding.NewEncoder(bus.DefaultCap(), &buf).Encode(x)
		if e != nil {
			return nil, nil, "", e
		}
		typ := reflect.TypeOf(x).Elem()
		return buf.Bytes(), func(rd io.Reader) error {
			return encoding.NewDecoder(bus.DefaultCap(), rd).Decode(reflect.New(typ).Interface())
		}, "Go value of type " + typ.String(), nil
	}
	return nil, nil, "", fmt.Errorf("unknown kind %s", kind)
}

// c08largeSig picks a signature with a string or a raw buffer in it and lets
// the generator draw one of them large (beyond any plausible chunk size of
// the read path, and exactly on the powers of two it could be).
// c08huge writes a list or a map whose elements take more room than any
// plausible limit of a reader (beyond ten and beyond sixteen megabytes) and
// returns its signature; withSig writes the signature in front (a dynamic
// value).
func c08huge(b *ref.Buf, r *rand.Rand, withSig bool) string {
	sig := []string{"[I]", "[s]", "{sI}", "[(II)]"}[r.IntN(4)]
	bytesWanted := []int{10<<20 + 4096, 11 << 20, 16<<20 + 100}[r.IntN(3)]
	if withSig {
		b.Str(sig)
	}
	per := map[string]int{"[I]": 4, "[s]": 8, "{sI}": 12, "[(II)]": 8}[sig]
	n := bytesWanted/per + 1
	b.U32(uint32(n))
	for i := 0; i < n; i++ {
		switch sig {
		case "[I]":
			b.U32(uint32(i))
		case "[s]":
			b.Str("abcd")
		case "{sI}":
			b.Str(fmt.Sprintf("%04x", i&0xffff))
			b.U32(uint32(i))
		default:
			b.U32(uint32(i))
			b.U32(uint32(i))
		}
	}
	return sig
}

func c08largeSig(g *sio.SigGen, r *rand.Rand) string {
	n := 1
	g.Large = &n
	return []string{"r", "s", "r", "[r]", "(Lri)", "{sr}", "(s[i])", "m"}[r.IntN(8)]
}

type c08ending struct {
	name    string
	err     error
	withEnd bool
}

var c08endings = []c08ending{
	{"EOF", io.EOF, false},
	{"data+EOF", io.EOF, true},
	{"ErrUnexpectedEOF", io.ErrUnexpectedEOF, false},
	{"reset", sio.ErrReset, false},
}

func (c08) Run(c *core.Case, env *core.Env) {
	var fps []uint64
	for i, op := range c.Ops {
		r := rand.New(rand.NewPCG(uint64(op.X), 11))
		enc, dec, desc, err := c08build(op.Kind, r, int(op.Y))
		if err != nil {
			env.Probe("generator-rejected")
			continue
		}
		L := len(enc)
		if L == 0 {
			env.Probe("empty-encoding")
			continue
		}
		// the full encoding must decode and be consumed entirely, otherwise it
		// is not a valid encoding: discarded and counted, never a pass
		// (for a type made for this operation, half of the time the prefixes
		// come first: the first thing the decoder ever sees of the type is then
		// a truncated encoding; the encoding is the library's own encoder's)
		prefixesFirst := op.Kind == "govalue" && op.Y == 5
		valid := func() bool {
			full := &sio.Reader{Data: enc, Frag: "random", R: r, EndErr: io.EOF}
			e := dec(full)
			if e == nil && full.Off < L {
				// accepted without having been read to its end: what was read
				// is a strict prefix, and the decoder has just accepted it
				env.Probe("complete-encoding-accepted-short")
				if e2 := dec(bytes.NewReader(enc[:full.Off])); e2 == nil {
					env.Violate("accepted/"+op.Kind, "%s: the decoder stops after %d of the %d bytes of the encoding and reports success: that prefix decodes without error\n encoding %x", desc, full.Off, L, head(enc, 120))
				}
				return false
			}
			if e != nil || full.Off != L {
				env.Probe("not-a-valid-encoding")
				env.Note("discarded %s (%d bytes): err=%v consumed=%d", desc, L, e, full.Off)
				return false
			}
			return true
		}
		if !prefixesFirst && !valid() {
			continue
		}
		if prefixesFirst {
			env.Probe("prefixes-before-the-first-complete-decode")
		}
		h := env.Invoke(0, "truncate", fmt.Sprintf("#%d %s, %d bytes", i, desc, L))
		cuts := make([]int, 0, L)
		huge := L > 4<<20
		if huge {
			// a few cuts only (every decode reads megabytes): the end, the
			// middle, and around the sizes a reader might stop at
			cuts = append(cuts, L-1, L-4, L/2)
			for _, b := range []int{8 << 20, 10<<20 + 1, 10<<20 + 4097, 16<<20 + 1} {
				if b < L {
					cuts = append(cuts, b)
				}
			}
			env.Probe("cuts-sampled-not-exhaustive")
			env.Probe("encodings-beyond-ten-megabytes")
		} else if L <= 4096 {
			for k := 0; k < L; k++ {
				cuts = append(cuts, k)
			}
		} else {
			for k := 0; k < 64; k++ {
				cuts = append(cuts, k, L-1-k)
			}
			for k := 0; k < 256; k++ {
				cuts = append(cuts, r.IntN(L))
			}
			// around the offsets where a chunked reader would switch
			for _, b := range []int{4096, 28 + 4096, 65536, 28 + 65536, 131072, 28 + 131072} {
				for d := -2; d <= 2; d++ {
					if b+d > 0 && b+d < L {
						cuts = append(cuts, b+d)
					}
				}
			}
			env.Probe("cuts-sampled-not-exhaustive")
		}
		failed := false
		decodes := 0
		for _, k := range cuts {
			// the readers the library itself hands to the decoders: a
			// bytes.Buffer / bytes.Reader holding exactly what arrived
			for _, rk := range []string{"bytes.Buffer", "bytes.Reader", "bufio.Reader"} {
				if huge && (rk != "bytes.Reader" || k%2 == 1) {
					continue
				}
				var rd io.Reader
				switch rk {
				case "bytes.Buffer":
					rd = bytes.NewBuffer(append([]byte(nil), enc[:k]...))
				case "bytes.Reader":
					rd = bytes.NewReader(enc[:k])
				default:
					rd = bufio.NewReader(bytes.NewReader(enc[:k]))
				}
				decodes++
				if e := dec(rd); e == nil {
					env.Violate("accepted/"+op.Kind, "%s: the prefix of %d of %d bytes (held in a %s) decoded without error\n encoding %x", desc, k, L, rk, head(enc, 120))
					failed = true
					break
				}
			}
			if failed {
				break
			}
			for ei, end := range c08endings {
				for _, frag := range []string{"greedy", "random"} {
					if end.withEnd && k == 0 {
						continue
					}
					if huge && (frag != "greedy" || ei != k%len(c08endings) || k%2 == 0) {
						continue
					}
					rd := &sio.Reader{Data: enc[:k], Frag: frag, R: r, EndErr: end.err, WithEnd: end.withEnd}
					decodes++
					if e := dec(rd); e == nil {
						env.Violate("accepted/"+op.Kind, "%s: the prefix of %d of %d bytes (stream end: %s, %s reads) decoded without error\n encoding %x", desc, k, L, end.name, frag, head(enc, 120))
						failed = true
					}
					if failed {
						break
					}
				}
				if failed {
					break
				}
			}
			if failed {
				break
			}
		}
		env.Return(h, fmt.Sprintf("%d truncated decodes", decodes), nil)
		if prefixesFirst && !failed && !valid() {
			continue
		}
		env.ProbeN("truncated-decodes", decodes)
		env.ProbeN("cut-positions", len(cuts))
		env.Probe("encodings-" + op.Kind)
		hs := fnv.New64a()
		hs.Write([]byte(op.Kind))
		hs.Write(enc)
		fps = append(fps, hs.Sum64())
	}
	env.Set("fps", fps)
	env.Set("decodes", env.Probes()["truncated-decodes"])
}

func (c08) Check(c *core.Case, env *core.Env, res zzsim.Result, v *core.Verdict) {
	fps, _ := env.Get("fps").([]uint64)
	v.FPs = fps
	v.Evals, _ = env.Get("decodes").(int)
	v.OpsDone = len(fps)
	v.Nontrivial = len(fps) > 0
}
