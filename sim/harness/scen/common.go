// Package scen holds the per-property scenarios. It is instrumented by
// simrewrite like the code under test, so its goroutines, channel operations
// and locks are scheduling points too.
package scen

import (
	"errors"
	"fmt"
	"sync"
	"time"

	"github.com/lugu/qiloop/bus"
	"github.com/lugu/qiloop/bus/net"
	"github.com/lugu/qiloop/type/object"
	probe "github.com/lugu/qiloop/zzprobe"

	"qsimharness/core"
	"qsimharness/ref"
	"zzsim"
	"zzsim/simnet"
)

// ServerAddr is where the simulated server listens.
const ServerAddr = "tcp://server:9559"

const (
	ActEcho  = 100
	ActFire  = 101
	ActNoarg = 102
	ActSlow  = 103
	ActLend  = 104
	ActRelay = 105
	SigNote  = 112
	SigTick  = 110
	SigTock  = 111
	PropLvl  = 120
)

// ProbeImpl is the service implementation: it records every execution.
type ProbeImpl struct {
	Env    *core.Env
	Obj    int
	Helper probe.ProbeSignalHelper
	Act    bus.Activation
	mu     sync.Mutex
	Terms  int
	// OnActivate, when set, runs within Activate (the object is not yet in
	// place: it may give its identifier away and take its time)
	OnActivate func(bus.Activation)
	// SlowMs is the number of simulated milliseconds Slow sleeps.
	SlowMs int
	// ActivateErr, when set, is what Activate returns (an object that
	// cannot start)
	ActivateErr error
	// ValidatorYields makes the property validator take its time (that many
	// forced scheduling decisions) before it answers.
	ValidatorYields int
	lent            probe.LentProxy
	lents           []probe.LentProxy
	// OnTerm, when set, runs inside the termination hook (an object that
	// takes other objects of the service down with it).
	OnTerm func()
	// RelayByID makes relay choose among all the objects lent so far: the
	// one whose identifier is the token's nonce.
	RelayByID bool
}

func (p *ProbeImpl) Activate(a bus.Activation, h probe.ProbeSignalHelper) error {
	p.Helper = h
	p.Act = a
	if p.OnActivate != nil {
		p.OnActivate(a)
	}
	if p.ActivateErr != nil {
		return p.ActivateErr
	}
	if p.Env != nil && p.Env.C.P("unset_level", 0) == 1 {
		// a declared property that has no value until somebody writes it
		return nil
	}
	return h.UpdateLevel(0)
}

func (p *ProbeImpl) OnTerminate() {
	p.mu.Lock()
	p.Terms++
	hook := p.OnTerm
	p.mu.Unlock()
	p.Env.Executed("OnTerminate", p.Obj, "", "")
	if hook != nil {
		hook()
	}
}

// Terminated returns how often OnTerminate ran.
func (p *ProbeImpl) Terminated() int {
	p.mu.Lock()
	defer p.mu.Unlock()
	return p.Terms
}

// shortText abbreviates the padding of large arguments in the execution log.
func shortText(t string) string {
	n := 0
	for n < len(t) && t[n] == 'p' {
		n++
	}
	if n > 8 {
		return fmt.Sprintf("p*%d%s", n, t[n:])
	}
	return t
}

func tokOf(t probe.Token) ref.Token {
	return ref.Token{Client: t.Client, Seq: t.Seq, Nonce: t.Nonce, Text: t.Text}
}

func (p *ProbeImpl) Echo(tok probe.Token) (probe.Token, error) {
	n := p.Env.Executed("echo", p.Obj, tokOf(tok).Key(), shortText(tok.Text))
	tok.Text = fmt.Sprintf("%s|o%d|x%d", tok.Text, p.Obj, n)
	return tok, nil
}

func (p *ProbeImpl) Fire(tok probe.Token) error {
	p.Env.Executed("fire", p.Obj, tokOf(tok).Key(), shortText(tok.Text))
	return nil
}

func (p *ProbeImpl) Noarg() (int32, error) {
	n := p.Env.Executed("noarg", p.Obj, "", "")
	return int32(n), nil
}

func (p *ProbeImpl) Slow(tok probe.Token) (probe.Token, error) {
	n := p.Env.Executed("slow", p.Obj, tokOf(tok).Key(), shortText(tok.Text))
	if p.SlowMs > 0 {
		time.Sleep(time.Duration(p.SlowMs) * time.Millisecond)
	}
	tok.Text = fmt.Sprintf("%s|o%d|x%d", tok.Text, p.Obj, n)
	return tok, nil
}

// Lend hands the object a proxy to an object hosted by the caller.
func (p *ProbeImpl) Lend(q probe.LentProxy) error {
	p.Env.Executed("lend", p.Obj, "", "")
	p.mu.Lock()
	p.lent = q
	p.lents = append(p.lents, q)
	p.mu.Unlock()
	return nil
}

// LentPublicID is the identifier under which the service exposes the object
// lent to this one (0 when nothing was lent).
func (p *ProbeImpl) LentPublicID() uint32 {
	p.mu.Lock()
	defer p.mu.Unlock()
	if p.lent == nil {
		return 0
	}
	return p.lent.Proxy().ObjectID()
}

// Relay calls echo on the lent object and returns its answer.
func (p *ProbeImpl) Relay(tok probe.Token) (probe.Token, error) {
	p.mu.Lock()
	q := p.lent
	if p.RelayByID {
		// the token names the lent object by its identifier
		q = nil
		for _, x := range p.lents {
			if x.Proxy().ObjectID() == uint32(tok.Nonce) {
				q = x
				break
			}
		}
	}
	p.mu.Unlock()
	if q == nil {
		var ids []uint32
		for _, x := range p.lents {
			ids = append(ids, x.Proxy().ObjectID())
		}
		return tok, fmt.Errorf("nothing was lent to object %d (asked for %d, lent: %v)", p.Obj, uint32(tok.Nonce), ids)
	}
	p.Env.Executed("relay", p.Obj, "", "")
	return q.Echo(tok)
}

// OnLabelChange accepts every value (label is a property of another type,
// whose values may be large).
func (p *ProbeImpl) OnLabelChange(v string) error { return nil }

// OnGaugeChange accepts every value (gauge is the object's second property).
func (p *ProbeImpl) OnGaugeChange(v int32) error { return nil }

func (p *ProbeImpl) OnLevelChange(v int32) error {
	for i := 0; i < p.ValidatorYields; i++ {
		zzsim.Yield("h.validator")
	}
	if v < 0 {
		return fmt.Errorf("level cannot be negative (%d)", v)
	}
	return nil
}

// ErrVictimBroken is what the server's writes to an unreachable subscriber
// fail with.
var ErrVictimBroken = errors.New("victim-broken: no route to host")

// BreakWritesLater makes the writes of the server towards the client side
// conn fail for good after n scheduling decisions: a party that became
// unreachable without the server having noticed.
func BreakWritesLater(env *core.Env, conn *simnet.Conn, n int) {
	go func() {
		for j := 0; j < n; j++ {
			zzsim.Yield("h.break-delay")
		}
		zzsim.Event("the server's writes to one party start failing")
		conn.Peer().FailWrites(ErrVictimBroken)
		env.Probe("a-subscriber-became-unreachable")
	}()
}

// LentImpl is an object hosted by a client and lent to a service.
type LentImpl struct {
	Env *core.Env
	Obj int
	// Nest, when set, is added to the same service from inside Activate
	// (an object that creates a child while it is being activated).
	Nest *LentImpl
	// ActivateYields forced scheduling decisions are taken inside Activate.
	ActivateYields int
	// SelfDoom: the object terminates itself from within Activate
	SelfDoom bool
	// TermRemovesNest: the termination hook removes the child the object
	// created (a parent that takes its child down with it)
	TermRemovesNest bool
	// SlowMs: echo takes that many simulated milliseconds
	SlowMs int
	// RefuseEvery > 0: echo answers one token in RefuseEvery with an error
	RefuseEvery int

	// Act is the activation the object received.
	Act bus.Activation

	mu      sync.Mutex
	actID   uint32 // identifier received at activation
	actSeq  int64
	terms   int
	NestID  uint32
	NestErr error
}

func (l *LentImpl) Activate(a bus.Activation, h probe.LentSignalHelper) error {
	l.mu.Lock()
	l.Act = a
	l.actID = a.ObjectID
	l.actSeq = zzsim.Seq()
	l.mu.Unlock()
	for i := 0; i < l.ActivateYields; i++ {
		zzsim.Yield("h.activate")
	}
	if l.SelfDoom && a.Terminate != nil {
		zzsim.Event("lent object %d terminates itself during its activation", l.Obj)
		a.Terminate()
	}
	if l.Nest != nil && a.Service != nil {
		id, err := a.Service.Add(probe.LentObject(l.Nest))
		l.mu.Lock()
		l.NestID, l.NestErr = id, err
		l.mu.Unlock()
	}
	return nil
}

func (l *LentImpl) OnTerminate() {
	l.mu.Lock()
	l.terms++
	svc, nest, doit := l.Act.Service, l.NestID, l.TermRemovesNest && l.NestErr == nil
	l.mu.Unlock()
	zzsim.Event("lent object %d terminated", l.Obj)
	if doit && svc != nil && nest != 0 {
		// (the child may be gone already: that is not the parent's business)
		svc.Remove(nest)
		l.Env.Probe("client-hosted-parents-removing-their-child")
	}
}

// Activated returns the identifier the object was activated with.
func (l *LentImpl) Activated() uint32 {
	l.mu.Lock()
	defer l.mu.Unlock()
	return l.actID
}

// Terminated returns how often the termination hook ran.
func (l *LentImpl) Terminated() int {
	l.mu.Lock()
	defer l.mu.Unlock()
	return l.terms
}

func (l *LentImpl) Echo(tok probe.Token) (probe.Token, error) {
	n := l.Env.Executed("echo", l.Obj, tokOf(tok).Key(), shortText(tok.Text))
	if l.SlowMs > 0 {
		time.Sleep(time.Duration(l.SlowMs) * time.Millisecond)
	}
	if LentRefuses(l.RefuseEvery, tok.Seq) {
		return tok, fmt.Errorf("lent object %d refuses token %d", l.Obj, tok.Seq)
	}
	tok.Text = fmt.Sprintf("%s|o%d|x%d", tok.Text, l.Obj, n)
	return tok, nil
}

// LentRefuses tells whether a lent object told to refuse one token in every
// answers the token numbered seq with an error (after having run).
func LentRefuses(every int, seq int32) bool {
	return every > 0 && int(seq)%every == every-1
}

// World is a running server with a probe service.
type World struct {
	Env       *core.Env
	Srv       bus.Server
	Svc       bus.Service
	ServiceID uint32
	Impls     []*ProbeImpl
	ObjIDs    []uint32
}

// StartServer starts a stand-alone server (private namespace) hosting the
// probe service with n objects. It runs as node "server".
func StartServer(env *core.Env, auth bus.Authenticator, n int) (*World, error) {
	zzsim.SetNode("server")
	defer zzsim.SetNode("harness")
	l, err := net.Listen(ServerAddr)
	if err != nil {
		return nil, fmt.Errorf("listen: %v", err)
	}
	if k := env.C.P("stream_names", 0); k > 0 {
		// the accepted streams present themselves the way the streams of
		// another transport do (what a stream calls itself must not matter)
		l = &namedListener{Listener: l, kind: k}
	}
	srv, err := bus.StandAloneServer(l, auth, bus.PrivateNamespace())
	if err != nil {
		return nil, fmt.Errorf("server: %v", err)
	}
	w := &World{Env: env, Srv: srv}
	impl := &ProbeImpl{Env: env, Obj: 0}
	svc, err := srv.NewService("Probe", probe.ProbeObject(impl))
	if err != nil {
		return nil, fmt.Errorf("new service: %v", err)
	}
	w.Svc = svc
	w.ServiceID = svc.ServiceID()
	w.Impls = append(w.Impls, impl)
	w.ObjIDs = append(w.ObjIDs, 1)
	for i := 1; i < n; i++ {
		if _, err := w.AddObject(); err != nil {
			return nil, err
		}
	}
	return w, nil
}

// namedListener hands out the streams of the simulated network under the
// names the streams of the other transports give themselves.
type namedListener struct {
	net.Listener
	kind int
	n    int
}

type namedStream struct {
	net.Stream
	name string
}

func (s namedStream) String() string { return s.name }

func (l *namedListener) Accept() (net.Stream, error) {
	s, err := l.Listener.Accept()
	if err != nil {
		return nil, err
	}
	l.n++
	name := fmt.Sprintf("pipe://%d:%d", 10+2*l.n, 11+2*l.n) // the fd-passing transport
	switch l.kind {
	case 2:
		name = "pipe://pipe" // what the in-process pipe of Server.Client() calls itself
	case 3:
		name = fmt.Sprintf("unix:///tmp/qi-%d.sock", l.n)
	case 4:
		name = fmt.Sprintf("tcps://127.0.0.1:%d", 40000+l.n)
	}
	return namedStream{s, name}, nil
}

// AddObject adds one more probe object to the service.
func (w *World) AddObject() (int, error) {
	impl := &ProbeImpl{Env: w.Env, Obj: len(w.Impls)}
	id, err := w.Svc.Add(probe.ProbeObject(impl))
	if err != nil {
		return 0, fmt.Errorf("add object: %v", err)
	}
	w.Impls = append(w.Impls, impl)
	w.ObjIDs = append(w.ObjIDs, id)
	return impl.Obj, nil
}

// Connect opens an authenticated connection as node `node`.
func Connect(node, user, token string) (bus.Client, error) {
	prev := zzsim.Node()
	zzsim.SetNode(node)
	defer zzsim.SetNode(prev)
	_, ch, err := bus.SelectEndPoint([]string{ServerAddr}, user, token)
	if err != nil {
		return nil, err
	}
	return bus.NewClient(ch), nil
}

// ProbeProxy returns a generated proxy for object objectID.
func ProbeProxy(c bus.Client, serviceID, objectID uint32) (probe.ProbeProxy, error) {
	meta, err := bus.GetMetaObject(c, serviceID, objectID)
	if err != nil {
		return nil, err
	}
	return probe.MakeProbe(nil, bus.NewProxy(c, meta, serviceID, objectID)), nil
}

var _ = object.MetaObject{}

// ---------------------------------------------------------------------------

// RawFrame is a frame received by a raw client.
type RawFrame struct {
	Seq int64
	F   ref.Frame
}

// Raw is a raw-frame client: it speaks bytes produced by the reference codec.
type Raw struct {
	Env    *core.Env
	Conn   *simnet.Conn
	ID     int
	mu     sync.Mutex
	frames []RawFrame
	eof    bool
	eofSeq int64
	rdErr  error
	junk   error
	notify chan struct{}
	nextID uint32
	NoRead bool
	// MaxKeep > 0: payloads longer than this are remembered truncated
	MaxKeep int
}

// DialRaw connects a raw client as node `node`.
func DialRaw(env *core.Env, node string, id int) (*Raw, error) {
	prev := zzsim.Node()
	zzsim.SetNode(node)
	defer zzsim.SetNode(prev)
	c, err := simnet.Dial("tcp", "server:9559")
	if err != nil {
		return nil, err
	}
	r := &Raw{Env: env, Conn: c, ID: id, notify: make(chan struct{}), nextID: 1000}
	go r.reader()
	return r, nil
}

func (r *Raw) reader() {
	var acc []byte
	done := 0
	buf := make([]byte, 4096)
	for {
		r.mu.Lock()
		stop := r.NoRead
		r.mu.Unlock()
		if stop {
			return
		}
		n, err := r.Conn.Read(buf)
		if n > 0 {
			acc = append(acc, buf[:n]...)
			frames, consumed, perr := ref.ParseStream(acc[done:])
			seq := zzsim.Seq()
			r.mu.Lock()
			for _, f := range frames {
				if r.MaxKeep > 0 && len(f.Payload) > r.MaxKeep {
					// (a peer that floods requests with huge answers: the
					// harness remembers the head of each answer only)
					f.Payload = f.Payload[:r.MaxKeep]
				}
				f.Payload = append([]byte(nil), f.Payload...)
				r.frames = append(r.frames, RawFrame{seq, f})
			}
			if perr != nil && r.junk == nil {
				r.junk = perr
			}
			close(r.notify)
			r.notify = make(chan struct{})
			r.mu.Unlock()
			done += consumed
			if done > 1<<20 {
				acc = append([]byte(nil), acc[done:]...)
				done = 0
			}
		}
		if err != nil {
			r.mu.Lock()
			r.eof = true
			r.eofSeq = zzsim.Seq()
			r.rdErr = err
			close(r.notify)
			r.notify = make(chan struct{})
			r.mu.Unlock()
			return
		}
	}
}

// NextID returns a fresh message id.
func (r *Raw) NextID() uint32 {
	r.mu.Lock()
	defer r.mu.Unlock()
	r.nextID++
	return r.nextID
}

// Send writes one frame.
func (r *Raw) Send(f ref.Frame) error {
	_, err := r.Conn.Write(f.Encode())
	return err
}

// SendBytes writes raw bytes.
func (r *Raw) SendBytes(b []byte) error {
	_, err := r.Conn.Write(b)
	return err
}

// Frames returns what was received so far.
func (r *Raw) Frames() []RawFrame {
	r.mu.Lock()
	defer r.mu.Unlock()
	return append([]RawFrame(nil), r.frames...)
}

// Closed tells whether the read side saw the end of the stream.
func (r *Raw) Closed() (bool, int64) {
	r.mu.Lock()
	defer r.mu.Unlock()
	return r.eof, r.eofSeq
}

// Junk returns the first framing error seen in the received stream.
func (r *Raw) Junk() error {
	r.mu.Lock()
	defer r.mu.Unlock()
	return r.junk
}

// Wait blocks until a received frame satisfies pred or the stream ends.
func (r *Raw) Wait(pred func(ref.Frame) bool) (ref.Frame, bool) {
	seen := 0
	for {
		r.mu.Lock()
		for ; seen < len(r.frames); seen++ {
			if pred(r.frames[seen].F) {
				f := r.frames[seen].F
				r.mu.Unlock()
				return f, true
			}
		}
		if r.eof {
			r.mu.Unlock()
			return ref.Frame{}, false
		}
		ch := r.notify
		r.mu.Unlock()
		<-ch
	}
}

// WaitID waits for a reply or error frame with the id.
func (r *Raw) WaitID(id uint32) (ref.Frame, bool) {
	return r.Wait(func(f ref.Frame) bool {
		return f.ID == id && (f.Type == ref.Reply || f.Type == ref.Error)
	})
}

// Auth sends an authenticate call with string credentials and reports
// whether the server's answer carries state "done".
func (r *Raw) Auth(user, token string) (bool, error) {
	id := r.NextID()
	if err := r.Send(ref.NewFrame(ref.Call, 0, 0, 8, id, ref.AuthPayload(user, token))); err != nil {
		return false, err
	}
	f, ok := r.WaitID(id)
	if !ok {
		return false, fmt.Errorf("connection closed during authentication")
	}
	if f.Type != ref.Reply {
		return false, fmt.Errorf("authentication error: %s", ref.ErrorText(f.Payload))
	}
	return CapState(f.Payload) == 3, nil
}

// CapState extracts __qi_auth_state from a capability map payload (0 when
// absent or not an integer).
func CapState(p []byte) uint32 {
	rd := ref.Rd{B: p}
	n := rd.U32()
	for i := uint32(0); i < n && rd.Err == nil; i++ {
		k := rd.Str()
		sig := rd.Str()
		var v uint32
		switch sig {
		case "I", "i":
			v = rd.U32()
		case "b":
			rd.U8()
		case "s":
			rd.Str()
		default:
			return 0
		}
		if k == "__qi_auth_state" {
			return v
		}
	}
	return 0
}

func seqAt(marks []simnet.Mark, end int) int64 {
	for _, m := range marks {
		if m.Off >= end {
			return m.Seq
		}
	}
	return 1 << 62
}

// EarlyReplyKeys returns the token keys of the echo / slow calls of the
// connection whose Reply (not an Error) had been read completely by the
// caller's endpoint before the Write that carried the call returned.
func EarlyReplyKeys(cc *simnet.Conn) map[string]bool {
	c2s, _ := cc.Sent()
	s2c, _ := cc.Peer().Sent()
	rets := cc.WriteReturns()
	reads := cc.ReadMarks()
	reqs, _, _ := ref.ParseStream(c2s)
	resps, _, _ := ref.ParseStream(s2c)
	replyRead := map[uint32]int64{}
	for _, f := range resps {
		if f.Type == ref.Reply {
			if _, ok := replyRead[f.ID]; !ok {
				if r := seqAt(reads, f.End); r > 0 {
					replyRead[f.ID] = r
				}
			}
		}
	}
	keys := map[string]bool{}
	for _, f := range reqs {
		if f.Type != ref.Call || (f.Action != ActEcho && f.Action != ActSlow) {
			continue
		}
		t := seqAt(rets, f.End)
		if r, ok := replyRead[f.ID]; ok && t > 0 && t < 1<<62 && r < t {
			if tok, err := ref.DecodeToken(f.Payload); err == nil {
				keys[tok.Key()] = true
			}
		}
	}
	return keys
}

// EarlyReplies counts, on the connection whose dialer side is cc, the calls
// whose reply had been read by the caller's endpoint before the Write that
// carried the call returned ("a reply that arrives before the send operation
// has even returned").
func EarlyReplies(cc *simnet.Conn) int {
	c2s, _ := cc.Sent()
	s2c, _ := cc.Peer().Sent()
	rets := cc.WriteReturns()
	reads := cc.ReadMarks()
	reqs, _, _ := ref.ParseStream(c2s)
	resps, _, _ := ref.ParseStream(s2c)
	replyRead := map[uint32]int64{}
	for _, f := range resps {
		if f.Type == ref.Reply || f.Type == ref.Error {
			if _, ok := replyRead[f.ID]; !ok {
				replyRead[f.ID] = seqAt(reads, f.End)
			}
		}
	}
	n := 0
	for _, f := range reqs {
		if f.Type != ref.Call {
			continue
		}
		if r, ok := replyRead[f.ID]; ok && r < seqAt(rets, f.End) {
			n++
		}
	}
	return n
}
