package harness

import (
	"bufio"
	"encoding/json"
	"fmt"
	"hash/fnv"
	"io"
	"log"
	"math/rand/v2"
	"os"
	"sort"
	"strings"
	"testing"
	"time"

	"qsimharness/core"
	"zzsim"
	_ "qsimharness/scen"
)

// Job is what the driver asks a worker process to do.
type Job struct {
	Mode       string   `json:"mode"` // batch | replay | digest | one
	Prop       string   `json:"prop"`
	Tier       string   `json:"tier"`
	Seed       uint64   `json:"seed"`
	Worker     int      `json:"worker"`
	Workers    int      `json:"workers"`
	Runs       int      `json:"runs"`
	From       int      `json:"from"`
	MaxSeconds float64  `json:"max_seconds"`
	ReplayDir  string   `json:"replay_dir"`
	Known      []string `json:"known"`
	File       string   `json:"file"`
	Trace      bool     `json:"trace"`
	MaxViol    int      `json:"max_violations"`
	NoMinimize bool     `json:"no_minimize"`
}

var out *bufio.Writer

func emit(kind string, v interface{}) {
	b, _ := json.Marshal(v)
	fmt.Fprintf(out, "QSIM %s %s\n", kind, b)
	out.Flush()
}

func mix(a uint64, s string, b uint64) uint64 {
	h := fnv.New64a()
	fmt.Fprintf(h, "%d|%s|%d", a, s, b)
	x := h.Sum64()
	x ^= x >> 30
	x *= 0xbf58476d1ce4e5b9
	x ^= x >> 27
	x *= 0x94d049bb133111eb
	x ^= x >> 31
	return x
}

func genCase(sc core.Scenario, job *Job, i int) (*core.Case, uint64) {
	g := mix(job.Seed, job.Prop, uint64(i))
	r := rand.New(rand.NewPCG(g, 1))
	core.JobSeed = job.Seed
	c := sc.Gen(r, job.Tier, i)
	c.Prop = job.Prop
	c.Seed = job.Seed
	c.Run = i
	if ts, ok := c.Params["tape_seed"]; ok {
		// runs of one block share the decision stream (fault enumeration)
		return c, mix(uint64(ts), "tape", 2)
	}
	return c, mix(g, "tape", 2)
}

// Summary is the aggregate a batch worker reports.
type Summary struct {
	Evaluations  int                 `json:"evaluations"`
	Runs         int                 `json:"runs"`
	Nontrivial   int                 `json:"nontrivial"`
	Fingerprints []uint64            `json:"fingerprints"` // of nontrivial runs
	EventFPs     []uint64            `json:"event_fps"`
	Steps        int64               `json:"steps"`
	Switches     int64               `json:"switches"`
	Yields       int64               `json:"yields"`
	Preempts     int64               `json:"preempts"`
	MapOrders    int64               `json:"map_orders"`
	SimSeconds   float64             `json:"sim_seconds"`
	OpsDone      int                 `json:"ops_done"`
	Fired        map[string]int      `json:"fired"`
	Configured   map[string]int      `json:"configured"`
	Probes       map[string]int      `json:"probes"`
	Inconclusive int                 `json:"inconclusive"`
	InconReasons map[string]int      `json:"inconclusive_reasons"`
	Known        map[string]int      `json:"known"`
	KnownDetail  map[string]string   `json:"known_detail"`
	Violations   []ViolationReport   `json:"violations"`
	Samples      []json.RawMessage   `json:"samples"`
	WallSeconds  float64             `json:"wall_seconds"`
	Stopped      string              `json:"stopped"`
	Batches      map[string]int      `json:"batches"`
	Sites        map[string]int      `json:"sites"` // statement sites of the code under test passed by a running goroutine
	_            map[string]struct{} `json:"-"`
}

// ViolationReport is one unknown violation, minimised and written out.
type ViolationReport struct {
	Class    string `json:"class"`
	Detail   string `json:"detail"`
	Run      int    `json:"run"`
	File     string `json:"file"`
	Tries    int    `json:"minimize_tries"`
	OpsFrom  int    `json:"ops_before"`
	OpsTo    int    `json:"ops_after"`
	TapeFrom int    `json:"tape_before"`
	TapeTo   int    `json:"tape_after"`
}

func contains(l []string, s string) bool {
	for _, x := range l {
		if x == s {
			return true
		}
	}
	return false
}

func TestWorker(t *testing.T) {
	path := os.Getenv("QSIM_JOB")
	if path == "" {
		t.Skip("QSIM_JOB not set")
	}
	log.SetOutput(io.Discard)
	out = bufio.NewWriter(os.Stdout)
	data, err := os.ReadFile(path)
	if err != nil {
		t.Fatal(err)
	}
	var job Job
	if err := json.Unmarshal(data, &job); err != nil {
		t.Fatal(err)
	}
	switch job.Mode {
	case "batch":
		batch(t, &job)
	case "replay":
		replay(t, &job)
	case "digest":
		digest(t, &job)
	case "one":
		one(t, &job)
	default:
		t.Fatalf("unknown mode %q", job.Mode)
	}
}

func batch(t *testing.T, job *Job) {
	mk := func() core.Scenario { return core.Lookup(job.Prop) }
	if mk() == nil {
		emit("error", map[string]string{"error": "no scenario for " + job.Prop})
		return
	}
	start := time.Now()
	sum := Summary{Fired: map[string]int{}, Configured: map[string]int{}, Probes: map[string]int{},
		Known: map[string]int{}, KnownDetail: map[string]string{}, InconReasons: map[string]int{}, Batches: map[string]int{}}
	fps := map[uint64]bool{}
	efps := map[uint64]bool{}
	if job.MaxViol <= 0 {
		job.MaxViol = 2
	}
	seen := map[string]bool{}
	for i := job.From + job.Worker; i < job.Runs; i += job.Workers {
		if job.MaxSeconds > 0 && time.Since(start).Seconds() > job.MaxSeconds {
			sum.Stopped = fmt.Sprintf("time budget reached before run %d", i)
			break
		}
		sc := mk()
		c, tapeSeed := genCase(sc, job, i)
		emit("begin", map[string]int{"run": i})
		v := core.Execute(t, sc, c, true, tapeSeed, false)
		if v.Evals > 0 {
			sum.Evaluations += v.Evals
		} else {
			sum.Evaluations++
		}
		sum.Runs++
		sum.Batches[c.Batch]++
		if v.HarnessError != "" {
			emit("harness-error", map[string]interface{}{"run": i, "error": v.HarnessError})
			sum.Stopped = "harness error"
			break
		}
		sum.Steps += v.Stats.Steps
		sum.Switches += v.Stats.Switches
		sum.Yields += v.Stats.Yields
		sum.Preempts += v.Stats.Preempts
		sum.MapOrders += v.Stats.MapOrders
		sum.SimSeconds += v.Stats.SimSeconds
		sum.OpsDone += v.OpsDone
		for k, n := range v.Fired {
			sum.Fired[k] += n
		}
		for k, n := range v.Probes {
			sum.Probes[k] += n
		}
		if c.Net.FaultGap > 0 {
			for _, k := range c.Net.FaultKind {
				sum.Configured[k]++
			}
		}
		for _, f := range c.Plan {
			sum.Configured[f.Kind]++
		}
		if v.Inconclusive != "" {
			sum.Inconclusive++
			sum.InconReasons[v.Inconclusive]++
		}
		if v.Nontrivial {
			if len(v.FPs) > 0 {
				sum.Nontrivial += len(v.FPs)
				for _, f := range v.FPs {
					fps[f] = true
				}
			} else {
				sum.Nontrivial++
				fps[v.Stats.Fingerprint] = true
			}
		}
		efps[v.Stats.EventFP] = true
		if len(sum.Samples) < 2 && v.Nontrivial {
			s := map[string]interface{}{"run": i, "params": c.Params, "sim": c.Sim, "net": c.Net, "plan": c.Plan, "ops": c.Ops,
				"tape_head": head(c.Tape, 40), "tape_len": len(c.Tape), "history": v.Sample, "steps": v.Stats.Steps, "switches": v.Stats.Switches}
			b, _ := json.Marshal(s)
			sum.Samples = append(sum.Samples, b)
		}
		for _, viol := range v.Violations {
			if contains(job.Known, viol.Class) {
				sum.Known[viol.Class]++
				if _, ok := sum.KnownDetail[viol.Class]; !ok {
					sum.KnownDetail[viol.Class] = firstLine(viol.Detail)
				}
				continue
			}
			if seen[viol.Class] {
				continue
			}
			seen[viol.Class] = true
			rep := ViolationReport{Class: viol.Class, Detail: viol.Detail, Run: i, OpsFrom: len(c.Ops), TapeFrom: len(c.Tape)}
			min := c
			if !job.NoMinimize {
				min, rep.Tries = core.Minimize(t, mk, c, viol.Class, 250, 90*time.Second)
			}
			min.Expect = viol.Class
			min.Detail = viol.Detail
			rep.OpsTo, rep.TapeTo = len(min.Ops), len(min.Tape)
			if min.Tape == nil {
				min.Tape = []int32{}
			}
			os.MkdirAll(job.ReplayDir, 0755)
			rep.File = fmt.Sprintf("%s/%s-seed%d-run%d-%x.json", job.ReplayDir, job.Prop, job.Seed, i, mix(0, viol.Class, 0)&0xffff)
			b, _ := json.MarshalIndent(min, "", " ")
			os.WriteFile(rep.File, b, 0644)
			sum.Violations = append(sum.Violations, rep)
			emit("violation", rep)
		}
		if len(sum.Violations) >= job.MaxViol {
			sum.Stopped = "violation limit"
			break
		}
	}
	for f := range fps {
		sum.Fingerprints = append(sum.Fingerprints, f)
	}
	for f := range efps {
		sum.EventFPs = append(sum.EventFPs, f)
	}
	sort.Slice(sum.Fingerprints, func(i, j int) bool { return sum.Fingerprints[i] < sum.Fingerprints[j] })
	sort.Slice(sum.EventFPs, func(i, j int) bool { return sum.EventFPs[i] < sum.EventFPs[j] })
	sum.WallSeconds = time.Since(start).Seconds()
	sum.Sites = map[string]int{}
	for k, n := range zzsim.CoverSnapshot() {
		if !strings.HasPrefix(k, "scen/") {
			sum.Sites[k] = n
		}
	}
	emit("summary", sum)
}

func firstLine(s string) string {
	for i, r := range s {
		if r == '\n' {
			return s[:i]
		}
	}
	return s
}

func head(t []int32, n int) []int32 {
	if len(t) > n {
		return t[:n]
	}
	return t
}

func loadCase(path string) (*core.Case, error) {
	data, err := os.ReadFile(path)
	if err != nil {
		return nil, err
	}
	var c core.Case
	if err := json.Unmarshal(data, &c); err != nil {
		return nil, err
	}
	if c.Tape == nil {
		c.Tape = []int32{}
	}
	return &c, nil
}

func replay(t *testing.T, job *Job) {
	c, err := loadCase(job.File)
	if err != nil {
		emit("error", map[string]string{"error": err.Error()})
		return
	}
	sc := core.Lookup(c.Prop)
	if sc == nil {
		emit("error", map[string]string{"error": "no scenario for " + c.Prop})
		return
	}
	v := core.Execute(t, sc, c, false, 0, job.Trace)
	res := map[string]interface{}{"prop": c.Prop, "expect": c.Expect, "reproduced": c.Expect != "" && v.Has(c.Expect),
		"violations": v.Violations, "harness_error": v.HarnessError, "inconclusive": v.Inconclusive, "stats": v.Stats, "history": v.Sample}
	emit("replay", res)
	if job.Trace {
		for _, l := range v.Notes {
			fmt.Fprintf(out, "TRACE NOTE %s\n", l)
		}
		for _, l := range v.Trace {
			fmt.Fprintf(out, "TRACE %s\n", l)
		}
		out.Flush()
	}
}

// one re-runs a generated case by its run number (used when a worker died).
func one(t *testing.T, job *Job) {
	sc := core.Lookup(job.Prop)
	c, tapeSeed := genCase(sc, job, job.From)
	emit("begin", map[string]int{"run": job.From})
	v := core.Execute(t, sc, c, true, tapeSeed, false)
	emit("one", map[string]interface{}{"run": job.From, "violations": v.Violations, "harness_error": v.HarnessError, "case": c})
}

// digest prints one line per run for the determinism self-test.
func digest(t *testing.T, job *Job) {
	for i := job.From; i < job.Runs; i++ {
		sc := core.Lookup(job.Prop)
		c, tapeSeed := genCase(sc, job, i)
		v := core.Execute(t, sc, c, true, tapeSeed, false)
		h := fnv.New64a()
		for _, x := range c.Tape {
			fmt.Fprintf(h, "%d,", x)
		}
		var classes []string
		for _, x := range v.Violations {
			classes = append(classes, x.Class)
		}
		fmt.Fprintf(out, "DIGEST %s run=%d fp=%x efp=%x steps=%d yields=%d sw=%d tape=%d/%x viol=%v herr=%q inc=%q\n",
			job.Prop, i, v.Stats.Fingerprint, v.Stats.EventFP, v.Stats.Steps, v.Stats.Yields, v.Stats.Switches, len(c.Tape), h.Sum64(), classes, firstLine(v.HarnessError), v.Inconclusive)
		out.Flush()
		// replaying the recorded tape must give the same run
		v2 := core.Execute(t, core.Lookup(job.Prop), c, false, 0, false)
		if v2.Stats.Fingerprint != v.Stats.Fingerprint || v2.Stats.EventFP != v.Stats.EventFP || v2.Stats.Steps != v.Stats.Steps {
			fmt.Fprintf(out, "DIGEST-MISMATCH %s run=%d replay differs: fp %x/%x efp %x/%x steps %d/%d\n", job.Prop, i,
				v.Stats.Fingerprint, v2.Stats.Fingerprint, v.Stats.EventFP, v2.Stats.EventFP, v.Stats.Steps, v2.Stats.Steps)
			out.Flush()
		}
	}
}
