module qsimharness

go 1.26

require (
	github.com/anishathalye/porcupine v1.3.0
	github.com/lugu/qiloop v0.0.0
	zzsim v0.0.0
)

replace github.com/lugu/qiloop => ../repo

replace zzsim => ../zzsim
