// Package zos replaces "os" in the files of the code under test that use it
// for nothing but pipes (os.Pipe, *os.File): the fd-passing transport. A pipe
// is one direction of a simulated connection: a Write is atomic with respect
// to the other writers of the same end (the run-time holds the descriptor's
// write lock for the whole call), blocks while the buffer is full, and the
// reader meets the end of the stream once the write end is closed and the
// buffer drained. Nothing is ever lost on a close, and a pipe is never reset.
package zos

import (
	"errors"
	"fmt"

	"zzsim/simnet"
)

// File is one end of a simulated pipe.
type File struct {
	c     *simnet.Conn
	write bool
}

var errWrongEnd = errors.New("zos: bad file descriptor (wrong end of the pipe)")

// Pipe returns the two ends of a new pipe.
func Pipe() (r *File, w *File, err error) {
	wc, rc := simnet.OSPipe()
	return &File{c: rc}, &File{c: wc, write: true}, nil
}

func (f *File) Read(p []byte) (int, error) {
	if f.write {
		return 0, errWrongEnd
	}
	return f.c.Read(p)
}

func (f *File) Write(p []byte) (int, error) {
	if !f.write {
		return 0, errWrongEnd
	}
	return f.c.Write(p)
}

func (f *File) Close() error { return f.c.Close() }

// Fd is a number that tells the ends of the run's pipes apart.
func (f *File) Fd() uintptr { return uintptr(3 + 2*f.c.Pair() + f.c.Side()) }

func (f *File) Name() string { return fmt.Sprintf("|%d", f.Fd()) }

// Conn is the simulated connection behind the end (harness API).
func (f *File) Conn() *simnet.Conn { return f.c }
