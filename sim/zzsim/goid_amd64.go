package zzsim

import (
	"runtime"
	"unsafe"
)

// The identity of the calling goroutine is needed at every yield point.
// runtime.Stack costs a full traceback (measured: 87 % of a simulation's CPU
// time), so on amd64 the goroutine id is read straight from the runtime's g
// structure. The offset of the id inside g is not assumed: it is found at start
// up by looking for the id that runtime.Stack reports, and confirmed on a
// second goroutine; if that fails the slow path stays in use.

func getg() uintptr

var goidOffset uintptr // 0 = unknown: use the slow path

func slowGoid() uint64 {
	var buf [48]byte
	n := runtime.Stack(buf[:], false)
	var id uint64
	for i := 10; i < n; i++ {
		c := buf[i]
		if c < '0' || c > '9' {
			break
		}
		id = id*10 + uint64(c-'0')
	}
	return id
}

func candidates(id uint64) []uintptr {
	g := getg()
	var out []uintptr
	for off := uintptr(0); off < 512; off += 8 {
		if *(*uint64)(unsafe.Pointer(g + off)) == id {
			out = append(out, off)
		}
	}
	return out
}

func init() {
	mine := candidates(slowGoid())
	ch := make(chan []uintptr)
	go func() { ch <- candidates(slowGoid()) }()
	theirs := <-ch
	var both []uintptr
	for _, a := range mine {
		for _, b := range theirs {
			if a == b {
				both = append(both, a)
			}
		}
	}
	if len(both) == 1 {
		goidOffset = both[0]
	}
}

func goid() uint64 {
	if goidOffset == 0 {
		return slowGoid()
	}
	return *(*uint64)(unsafe.Pointer(getg() + goidOffset))
}

// FastGoid tells whether the fast identity lookup is in use.
func FastGoid() bool { return goidOffset != 0 }
