// Package zrand replaces "math/rand" in instrumented code: values come from
// the run's auxiliary PRNG so that object ids and handler ids do not depend on
// process history.
package zrand

import (
	"math/rand"

	"zzsim"
)

type (
	Rand   = rand.Rand
	Source = rand.Source
)

func NewSource(seed int64) Source { return rand.NewSource(seed) }
func New(src Source) *Rand        { return rand.New(src) }
func Seed(seed int64)             {}

func Uint64() uint64 { return zzsim.Aux() }
func Uint32() uint32 { return zzsim.AuxUint32() }
func Int63() int64   { return int64(zzsim.Aux() >> 1) }
func Int31() int32   { return int32(zzsim.Aux() >> 33) }
func Int() int       { return int(uint(zzsim.Aux()) << 1 >> 1) }

func Int63n(n int64) int64 {
	if n <= 0 {
		panic("invalid argument to Int63n")
	}
	return int64(zzsim.Aux()>>1) % n
}

func Int31n(n int32) int32 {
	if n <= 0 {
		panic("invalid argument to Int31n")
	}
	return int32(Int63n(int64(n)))
}

func Intn(n int) int {
	if n <= 0 {
		panic("invalid argument to Intn")
	}
	return int(Int63n(int64(n)))
}

func Float64() float64 { return float64(zzsim.Aux()>>11) / (1 << 53) }
func Float32() float32 { return float32(Float64()) }

func Perm(n int) []int {
	m := make([]int, n)
	for i := 0; i < n; i++ {
		j := Intn(i + 1)
		m[i] = m[j]
		m[j] = i
	}
	return m
}

func Shuffle(n int, swap func(i, j int)) {
	for i := n - 1; i > 0; i-- {
		j := Intn(i + 1)
		swap(i, j)
	}
}

func Read(p []byte) (int, error) {
	for i := range p {
		p[i] = byte(zzsim.Aux())
	}
	return len(p), nil
}
