// Package ztime replaces "time" in instrumented code. Inside a synctest
// bubble the real package already reads the fake clock; the shim only makes
// a goroutine woken by the clock park like any other woken goroutine.
package ztime

import (
	"time"

	"zzsim"
)

type (
	Duration   = time.Duration
	Time       = time.Time
	Timer      = time.Timer
	Ticker     = time.Ticker
	Month      = time.Month
	Weekday    = time.Weekday
	Location   = time.Location
	ParseError = time.ParseError
)

const (
	Nanosecond  = time.Nanosecond
	Microsecond = time.Microsecond
	Millisecond = time.Millisecond
	Second      = time.Second
	Minute      = time.Minute
	Hour        = time.Hour

	RFC3339     = time.RFC3339
	RFC3339Nano = time.RFC3339Nano
	RFC1123     = time.RFC1123
	Kitchen     = time.Kitchen
	StampMilli  = time.StampMilli
)

var (
	UTC   = time.UTC
	Local = time.Local
)

func Now() Time                                { return time.Now() }
func Since(t Time) Duration                    { return time.Since(t) }
func Until(t Time) Duration                    { return time.Until(t) }
func NewTimer(d Duration) *Timer               { return time.NewTimer(d) }
func NewTicker(d Duration) *Ticker             { return time.NewTicker(d) }
func After(d Duration) <-chan Time             { return time.After(d) }
func Tick(d Duration) <-chan Time              { return time.Tick(d) }
func Unix(sec int64, nsec int64) Time          { return time.Unix(sec, nsec) }
func UnixMilli(msec int64) Time                { return time.UnixMilli(msec) }
func ParseDuration(s string) (Duration, error) { return time.ParseDuration(s) }
func Parse(layout, value string) (Time, error) { return time.Parse(layout, value) }
func Date(year int, month Month, day, hour, min, sec, nsec int, loc *Location) Time {
	return time.Date(year, month, day, hour, min, sec, nsec, loc)
}

// Sleep sleeps on the simulated clock.
func Sleep(d Duration) {
	time.Sleep(d)
	zzsim.W("time.Sleep")
}

// AfterFunc runs f in its own simulated goroutine after d.
func AfterFunc(d Duration, f func()) *Timer {
	t := zzsim.Spawn("time.AfterFunc")
	return time.AfterFunc(d, func() {
		t.Start()
		defer t.Done()
		f()
	})
}
