// Package ztls replaces "crypto/tls" in instrumented code: the TLS transport
// is the same simulated byte stream (record processing is not exercised).
package ztls

import (
	"crypto/tls"
	"net"

	"zzsim"
	"zzsim/znet"
)

type (
	Config      = tls.Config
	Certificate = tls.Certificate
	Conn        = tls.Conn
)

func Dial(network, addr string, config *Config) (net.Conn, error) {
	if zzsim.Current() == nil {
		return tls.Dial(network, addr, config)
	}
	return znet.Dial("tls+"+network, addr)
}

func Listen(network, laddr string, config *Config) (net.Listener, error) {
	if zzsim.Current() == nil {
		return tls.Listen(network, laddr, config)
	}
	return znet.Listen("tls+"+network, laddr)
}

func X509KeyPair(certPEMBlock, keyPEMBlock []byte) (Certificate, error) {
	return tls.X509KeyPair(certPEMBlock, keyPEMBlock)
}

func LoadX509KeyPair(certFile, keyFile string) (Certificate, error) {
	return tls.LoadX509KeyPair(certFile, keyFile)
}
