package zzsim

import (
	"sync"
	"testing"
)

func TestFastGoid(t *testing.T) {
	if !FastGoid() {
		t.Fatal("fast goid calibration failed")
	}
	var wg sync.WaitGroup
	for i := 0; i < 200; i++ {
		wg.Add(1)
		go func() {
			defer wg.Done()
			if goid() != slowGoid() {
				t.Errorf("goid %d != %d", goid(), slowGoid())
			}
		}()
	}
	wg.Wait()
}

func BenchmarkGoid(b *testing.B) {
	for i := 0; i < b.N; i++ {
		goid()
	}
}

func BenchmarkSlowGoid(b *testing.B) {
	for i := 0; i < b.N; i++ {
		slowGoid()
	}
}
