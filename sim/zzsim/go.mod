module zzsim

go 1.26
