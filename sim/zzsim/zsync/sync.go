// Package zsync replaces "sync" in instrumented code. Mutexes block on
// channels (durably blocking inside a synctest bubble), make the scheduler
// decide who gets a contended lock, and turn misuse into a recorded crash of
// the node, as the real runtime would abort the process.
package zsync

import (
	"sync"

	"zzsim"
)

type (
	// Locker is sync.Locker.
	Locker = sync.Locker
	// Map is sync.Map.
	Map = sync.Map
)

// Pool replaces sync.Pool (whose reuse depends on which P a goroutine happens
// to run on) by a last-in first-out free list that belongs to one simulated
// run: what was put is what the next Get returns, in every replay, and nothing
// is carried over from one run of the process to the next.
type Pool struct {
	New func() any

	mu    sync.Mutex
	owner *zzsim.Sim
	items []any
}

// Get takes the most recently put item, or makes a new one.
func (p *Pool) Get() any {
	zzsim.SyncOp()
	p.mu.Lock()
	if s := zzsim.Current(); s != p.owner {
		p.owner, p.items = s, nil
	}
	if n := len(p.items); n > 0 {
		x := p.items[n-1]
		p.items = p.items[:n-1]
		p.mu.Unlock()
		return x
	}
	p.mu.Unlock()
	if p.New != nil {
		return p.New()
	}
	return nil
}

// Put gives an item back.
func (p *Pool) Put(x any) {
	zzsim.SyncOp()
	if x == nil {
		return
	}
	p.mu.Lock()
	if s := zzsim.Current(); s != p.owner {
		p.owner, p.items = s, nil
	}
	p.items = append(p.items, x)
	p.mu.Unlock()
}

// Mutex is a channel based sync.Mutex.
type Mutex struct {
	mu      sync.Mutex
	locked  bool
	waiters []chan struct{}
}

func wakeAll(ws []chan struct{}) {
	for _, w := range ws {
		close(w)
	}
}

// Lock locks m.
func (m *Mutex) Lock() {
	zzsim.SyncOp()
	for {
		m.mu.Lock()
		if !m.locked {
			m.locked = true
			m.mu.Unlock()
			return
		}
		ch := make(chan struct{})
		m.waiters = append(m.waiters, ch)
		m.mu.Unlock()
		zzsim.Blocking("sync.Mutex.Lock")
		<-ch
		zzsim.W("sync.Mutex.Lock")
	}
}

// TryLock tries to lock m.
func (m *Mutex) TryLock() bool {
	zzsim.SyncOp()
	m.mu.Lock()
	defer m.mu.Unlock()
	if m.locked {
		return false
	}
	m.locked = true
	return true
}

// Unlock unlocks m.
func (m *Mutex) Unlock() {
	zzsim.SyncOp()
	m.mu.Lock()
	if !m.locked {
		m.mu.Unlock()
		zzsim.Fatal("fatal error: sync: unlock of unlocked mutex")
		return
	}
	m.locked = false
	ws := m.waiters
	m.waiters = nil
	m.mu.Unlock()
	wakeAll(ws)
}

// RWMutex is a channel based sync.RWMutex with the blocking behaviour of the
// real one: a pending writer blocks new readers.
type RWMutex struct {
	mu       sync.Mutex
	writer   bool
	readers  int
	wwaiting int
	waiters  []chan struct{}
}

func (m *RWMutex) wait() {
	ch := make(chan struct{})
	m.waiters = append(m.waiters, ch)
	m.mu.Unlock()
	zzsim.Blocking("sync.RWMutex")
	<-ch
}

func (m *RWMutex) wake() {
	ws := m.waiters
	m.waiters = nil
	m.mu.Unlock()
	wakeAll(ws)
}

// Lock takes the write lock.
func (m *RWMutex) Lock() {
	zzsim.SyncOp()
	m.mu.Lock()
	m.wwaiting++
	for {
		if !m.writer && m.readers == 0 {
			m.writer = true
			m.wwaiting--
			m.mu.Unlock()
			return
		}
		m.wait()
		zzsim.W("sync.RWMutex.Lock")
		m.mu.Lock()
	}
}

// Unlock releases the write lock.
func (m *RWMutex) Unlock() {
	zzsim.SyncOp()
	m.mu.Lock()
	if !m.writer {
		m.mu.Unlock()
		zzsim.Fatal("fatal error: sync: Unlock of unlocked RWMutex")
		return
	}
	m.writer = false
	m.wake()
}

// RLock takes a read lock.
func (m *RWMutex) RLock() {
	zzsim.SyncOp()
	m.mu.Lock()
	for {
		if !m.writer && m.wwaiting == 0 {
			m.readers++
			m.mu.Unlock()
			return
		}
		m.wait()
		zzsim.W("sync.RWMutex.RLock")
		m.mu.Lock()
	}
}

// RUnlock releases a read lock.
func (m *RWMutex) RUnlock() {
	zzsim.SyncOp()
	m.mu.Lock()
	if m.readers == 0 {
		m.mu.Unlock()
		zzsim.Fatal("fatal error: sync: RUnlock of unlocked RWMutex")
		return
	}
	m.readers--
	m.wake()
}

// TryLock tries to take the write lock.
func (m *RWMutex) TryLock() bool {
	zzsim.SyncOp()
	m.mu.Lock()
	defer m.mu.Unlock()
	if m.writer || m.readers > 0 {
		return false
	}
	m.writer = true
	return true
}

// TryRLock tries to take a read lock.
func (m *RWMutex) TryRLock() bool {
	zzsim.SyncOp()
	m.mu.Lock()
	defer m.mu.Unlock()
	if m.writer || m.wwaiting > 0 {
		return false
	}
	m.readers++
	return true
}

// RLocker returns a Locker for the read side.
func (m *RWMutex) RLocker() Locker { return (*rlocker)(m) }

type rlocker RWMutex

func (r *rlocker) Lock()   { (*RWMutex)(r).RLock() }
func (r *rlocker) Unlock() { (*RWMutex)(r).RUnlock() }

// WaitGroup wraps sync.WaitGroup (durably blocking inside a bubble); the
// woken waiter parks.
type WaitGroup struct {
	wg sync.WaitGroup
}

// Add adds delta.
func (w *WaitGroup) Add(delta int) { zzsim.SyncOp(); w.wg.Add(delta) }

// Done decrements the counter.
func (w *WaitGroup) Done() { zzsim.SyncOp(); w.wg.Done() }

// Wait waits for the counter to reach zero.
func (w *WaitGroup) Wait() {
	zzsim.SyncOp()
	w.wg.Wait()
	zzsim.W("sync.WaitGroup.Wait")
}

// Go runs f in a new goroutine (Go 1.25 API).
func (w *WaitGroup) Go(f func()) {
	zzsim.SyncOp()
	w.wg.Add(1)
	t := zzsim.Spawn("sync.WaitGroup.Go")
	go func() {
		t.Start()
		defer t.Done()
		defer w.wg.Done()
		f()
	}()
}

// Once is sync.Once on top of the simulated mutex.
type Once struct {
	m    Mutex
	done bool
}

// Do calls f once.
func (o *Once) Do(f func()) {
	zzsim.SyncOp()
	o.m.Lock()
	defer o.m.Unlock()
	if !o.done {
		defer func() { o.done = true }()
		f()
	}
}

// Cond is a condition variable on channels.
type Cond struct {
	L       Locker
	mu      sync.Mutex
	waiters []chan struct{}
}

// NewCond returns a Cond.
func NewCond(l Locker) *Cond { return &Cond{L: l} }

// Wait waits for a Signal or Broadcast.
func (c *Cond) Wait() {
	zzsim.SyncOp()
	ch := make(chan struct{})
	c.mu.Lock()
	c.waiters = append(c.waiters, ch)
	c.mu.Unlock()
	c.L.Unlock()
	<-ch
	zzsim.W("sync.Cond.Wait")
	c.L.Lock()
}

// Signal wakes one waiter.
func (c *Cond) Signal() {
	zzsim.SyncOp()
	c.mu.Lock()
	if len(c.waiters) > 0 {
		ch := c.waiters[0]
		c.waiters = c.waiters[1:]
		close(ch)
	}
	c.mu.Unlock()
}

// Broadcast wakes all waiters.
func (c *Cond) Broadcast() {
	zzsim.SyncOp()
	c.mu.Lock()
	ws := c.waiters
	c.waiters = nil
	c.mu.Unlock()
	wakeAll(ws)
}
