// Package zfd replaces "github.com/ftrvxmtrx/fd" (file descriptors passed
// over a unix socket) in the code under test: the ends of simulated pipes
// travel with one byte written on the simulated unix connection.
package zfd

import (
	"errors"
	"io"

	"zzsim/znet"
	"zzsim/zos"
)

// Put sends the files over the connection.
func Put(via *znet.UnixConn, files ...*zos.File) error {
	if via == nil || via.Conn == nil {
		return errors.New("zfd: no connection")
	}
	for _, f := range files {
		via.Conn.Peer().Ancillary(f)
	}
	_, err := via.Conn.Write([]byte{0})
	return err
}

// Get receives num files from the connection.
func Get(via *znet.UnixConn, num int, filenames []string) ([]*zos.File, error) {
	if via == nil || via.Conn == nil {
		return nil, errors.New("zfd: no connection")
	}
	if num < 1 {
		return nil, nil
	}
	var b [1]byte
	if _, err := io.ReadFull(via.Conn, b[:]); err != nil {
		return nil, err
	}
	var out []*zos.File
	for _, x := range via.Conn.TakeAncillary(num) {
		if f, ok := x.(*zos.File); ok {
			out = append(out, f)
		}
	}
	return out, nil
}
