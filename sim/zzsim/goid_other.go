//go:build !amd64

package zzsim

import "runtime"

func goid() uint64 {
	var buf [48]byte
	n := runtime.Stack(buf[:], false)
	var id uint64
	for i := 10; i < n; i++ {
		c := buf[i]
		if c < '0' || c > '9' {
			break
		}
		id = id*10 + uint64(c-'0')
	}
	return id
}

// FastGoid tells whether the fast identity lookup is in use.
func FastGoid() bool { return false }
