// Package simnet is the simulated network (DESIGN.md section 3.4): reliable
// ordered byte streams with per-call-atomic writes, back-pressure, seeded
// fragmentation of reads, close/reset semantics, planned and random faults and
// a wire tap on every direction.
package simnet

import (
	"errors"
	"fmt"
	"io"
	"net"
	"sync"
	"time"

	"zzsim"
	"zzsim/zsync"
)

// Fault kinds.
const (
	FReset       = "reset"             // connection aborted, buffered bytes lost, both sides fail
	FClosePeer   = "close-peer"        // the other side closes gracefully at this operation
	FCloseLocal  = "close-local"       // this side closes at this operation
	FWriteErr    = "write-partial-err" // Write delivers a prefix and returns an error; the connection is broken afterwards
	FCrash       = "node-crash"        // all connections of the peer's node are reset at once
	FDialFail    = "dial-fail"
	FEOFData     = "eof+data"               // counted when a read returns data together with io.EOF
	FWriteBroken = "write-direction-broken" // counted per failed write of a side whose outgoing direction was broken
	FTimeout     = "deadline-passed"        // a Read or Write gave up at its deadline
	FCut         = "cut-at-byte"            // the incoming stream ends (EOF or reset) after exactly N bytes were read
	FFrag        = "frag"                   // counted when a read returns less than was available and asked for
	FStallWrite  = "backpressure"
)

// Errors of the simulated transport.
var (
	ErrClosed  = errors.New("simnet: use of closed network connection")
	ErrReset   = errors.New("simnet: connection reset by peer")
	ErrPipe    = errors.New("simnet: broken pipe")
	ErrRefused = errors.New("simnet: connection refused")
)

// Config of the network for one run (part of the replay file).
type Config struct {
	Capacity  int      `json:"capacity"`    // receive window per direction in bytes; 0 = unbounded
	ReadMode  string   `json:"read_mode"`   // greedy | random | tiny | byte
	Abortive  int      `json:"abortive"`    // percent of Close calls that reset instead of closing gracefully
	EOFData   int      `json:"eof_data"`    // percent chance that the last bytes are returned together with io.EOF
	FaultGap  int      `json:"fault_gap"`   // mean number of I/O operations between random faults; 0 = none
	FaultKind []string `json:"fault_kinds"` // kinds of random faults
	IOYield   bool     `json:"io_yield"`    // forced scheduling decision at every I/O boundary
	// LateWrite models TCP: after the peer has closed, local writes are still
	// accepted (and the bytes vanish) instead of failing at once.
	LateWrite bool `json:"late_write"`
	// CloseErr models TLS: closing a connection the peer has already reset
	// or closed fails to send the close_notify alert; Close does close the
	// connection but reports an error (percent chance).
	CloseErr int `json:"close_err"`
}

// FaultAt plans a fault at the Op-th I/O operation (0 based) of connection
// pair Pair (-1: counted over all connections).
type FaultAt struct {
	Pair int    `json:"pair"`
	Op   int    `json:"op"`
	Kind string `json:"kind"`
}

// OpRec is one I/O operation as seen by the fault planner.
type OpRec struct {
	Pair int    `json:"pair"`
	Side int    `json:"side"`
	Kind string `json:"kind"` // read | write | close | dial | accept
	N    int    `json:"n"`
	Seq  int64  `json:"seq"`
}

// Network is the set of listeners and connections of one run.
type Network struct {
	mu        sync.Mutex
	cfg       Config
	listeners map[string]*Listener
	conns     []*Conn // dialer sides, index = pair id
	plan      []FaultAt
	ops       []OpRec
	pairOps   map[int]int
	gap       int
	Fired     map[string]int
	keepOps   bool
	// FirstFault is the event sequence number of the first disruptive fault.
	FirstFault int64
	paused     bool
}

// PauseFaults switches random fault injection off (during the set-up of a
// scenario) and on again.
func (nw *Network) PauseFaults(p bool) {
	nw.mu.Lock()
	nw.paused = p
	nw.mu.Unlock()
}

// Of returns the network of simulation s.
func Of(s *zzsim.Sim) *Network {
	if nw, ok := s.Ext["simnet"].(*Network); ok {
		return nw
	}
	nw := &Network{listeners: map[string]*Listener{}, pairOps: map[int]int{}, Fired: map[string]int{}, gap: -1}
	s.Ext["simnet"] = nw
	return nw
}

func current() *Network {
	s := zzsim.Current()
	if s == nil {
		return nil
	}
	return Of(s)
}

// Configure sets the configuration and the planned faults.
func (nw *Network) Configure(cfg Config, plan []FaultAt, keepOps bool) {
	nw.mu.Lock()
	defer nw.mu.Unlock()
	nw.cfg = cfg
	nw.plan = plan
	nw.keepOps = keepOps
}

// Ops returns the recorded I/O operations (Configure keepOps).
func (nw *Network) Ops() []OpRec {
	nw.mu.Lock()
	defer nw.mu.Unlock()
	return append([]OpRec(nil), nw.ops...)
}

// Conns returns the dialer side of every connection pair.
func (nw *Network) Conns() []*Conn {
	nw.mu.Lock()
	defer nw.mu.Unlock()
	return append([]*Conn(nil), nw.conns...)
}

func (nw *Network) fire(kind string) {
	seq := zzsim.Seq()
	nw.mu.Lock()
	nw.Fired[kind]++
	switch kind {
	case FReset, FClosePeer, FCloseLocal, FWriteErr, FCrash, FCut:
		if nw.FirstFault == 0 {
			nw.FirstFault = seq
		}
	}
	nw.mu.Unlock()
}

// FirstFaultSeq returns the event sequence number of the first disruptive
// fault (0: none fired).
func (nw *Network) FirstFaultSeq() int64 {
	nw.mu.Lock()
	defer nw.mu.Unlock()
	return nw.FirstFault
}

// nextOp numbers an I/O operation and returns the fault to inject there.
func (nw *Network) nextOp(c *Conn, kind string, n int) string {
	nw.mu.Lock()
	global := len(nw.ops)
	pairOp := nw.pairOps[c.pair]
	nw.pairOps[c.pair] = pairOp + 1
	if nw.keepOps {
		nw.ops = append(nw.ops, OpRec{c.pair, c.side, kind, n, 0})
	} else {
		nw.ops = append(nw.ops, OpRec{})
	}
	fault := ""
	for _, f := range nw.plan {
		if (f.Pair == c.pair && f.Op == pairOp) || (f.Pair == -1 && f.Op == global) {
			fault = f.Kind
		}
	}
	gapMean := nw.cfg.FaultGap
	kinds := nw.cfg.FaultKind
	if nw.paused {
		gapMean = 0
	}
	nw.mu.Unlock()
	if fault == "" && gapMean > 0 && len(kinds) > 0 && c.faultable {
		// one decision per operation would make tapes long: count down
		nw.mu.Lock()
		if nw.gap < 0 {
			nw.mu.Unlock()
			g := zzsim.Skewed(4*gapMean, 0)
			if g == 0 {
				g = 1 << 40 // tape exhausted or drawn 0: no further random fault
			}
			nw.mu.Lock()
			nw.gap = g
		}
		nw.gap--
		hit := nw.gap == 0
		if hit {
			nw.gap = -1
		}
		nw.mu.Unlock()
		if hit {
			fault = kinds[zzsim.Draw(len(kinds))]
		}
	}
	if fault != "" {
		zzsim.Event("fault %s pair=%d side=%d op=%s", fault, c.pair, c.side, kind)
	}
	return fault
}

// ---------------------------------------------------------------------------

// Addr is a simulated address.
type Addr struct {
	Net string
	Str string
}

func (a Addr) Network() string { return a.Net }
func (a Addr) String() string  { return a.Str }

// Mark relates a byte offset of a direction to the event sequence number at
// which it was reached.
type Mark struct {
	Seq int64
	Off int
}

// half is one direction of a connection.
type half struct {
	mu       sync.Mutex
	buf      []byte
	cap      int
	sync     bool // net.Pipe semantics: Write returns when everything was read
	wclosed  bool // writer closed: reader drains then sees EOF
	rclosed  bool // reader closed: writer fails
	reset    bool
	writeErr error // every write into this direction fails with it (harness controlled)
	stalled  bool  // the reading process does not take anything (harness controlled)
	cutOn    bool
	cutAt    int  // with cutOn: the reader gets exactly this many bytes in total, then the end of the stream
	cutRst   bool // the end is a reset instead of a clean EOF
	cutDone  bool
	wait     chan struct{}
	wlock    zsync.Mutex
	tap      []byte // every byte ever accepted
	wmarks   []Mark // accepted offsets
	rmarks   []Mark // consumed offsets
	retmark  []Mark // offset written when a Write call returned (Seq = moment of return)
	rdOff    int
}

func newHalf(capacity int, syncPipe bool) *half {
	return &half{cap: capacity, sync: syncPipe, wait: make(chan struct{})}
}

// broadcast must be called with h.mu held.
func (h *half) broadcast() {
	close(h.wait)
	h.wait = make(chan struct{})
}

// Conn is one side of a simulated connection.
type Conn struct {
	nw        *Network
	pair      int
	side      int // 0 dialer, 1 acceptor
	rd, wr    *half
	peer      *Conn
	local     Addr
	remote    Addr
	mu        sync.Mutex
	closed    bool
	node      string
	faultable bool
	osPipe    bool          // one end of a simulated operating system pipe
	anc       []interface{} // file descriptors passed towards this side
	rdeadline time.Time
	wdeadline time.Time
}

// Release drops what the pipes of a finished run hold (buffered and recorded
// bytes): goroutines the run left behind keep their connections reachable for
// the life of the process.
func (nw *Network) Release() {
	nw.mu.Lock()
	conns := append([]*Conn(nil), nw.conns...)
	nw.mu.Unlock()
	for _, c := range conns {
		for _, h := range []*half{c.rd, c.wr} {
			h.mu.Lock()
			h.buf, h.tap, h.wmarks, h.rmarks, h.retmark = nil, nil, nil, nil, nil
			h.mu.Unlock()
		}
	}
}

// Pair returns the connection pair id.
func (c *Conn) Pair() int { return c.pair }

// Side returns 0 for the dialer and 1 for the acceptor.
func (c *Conn) Side() int { return c.side }

// Peer returns the other side.
func (c *Conn) Peer() *Conn { return c.peer }

// Node returns the node that owns this side.
func (c *Conn) Node() string { return c.node }

// SetFaultable includes or excludes the pair from random fault injection.
func (c *Conn) SetFaultable(b bool) { c.faultable = b; c.peer.faultable = b }

// Sent returns every byte this side has written so far and the marks relating
// offsets to event sequence numbers.
func (c *Conn) Sent() ([]byte, []Mark) {
	h := c.wr
	h.mu.Lock()
	defer h.mu.Unlock()
	return append([]byte(nil), h.tap...), append([]Mark(nil), h.wmarks...)
}

// WriteReturns relates, for each Write call of this side that returned
// normally, the moment of the return to the stream offset reached.
func (c *Conn) WriteReturns() []Mark {
	h := c.wr
	h.mu.Lock()
	defer h.mu.Unlock()
	return append([]Mark(nil), h.retmark...)
}

// ReadMarks returns the consumption marks of the bytes flowing to this side.
func (c *Conn) ReadMarks() []Mark {
	h := c.rd
	h.mu.Lock()
	defer h.mu.Unlock()
	return append([]Mark(nil), h.rmarks...)
}

// CutIncomingAfter makes the stream towards this side end after exactly n
// more bytes have been read by it: a clean EOF, or a reset. Whatever the peer
// sent beyond that point is lost and the peer's side is aborted.
func (c *Conn) CutIncomingAfter(n int, reset bool) {
	h := c.rd
	h.mu.Lock()
	h.cutOn = true
	h.cutAt = h.rdOff + n
	h.cutRst = reset
	h.broadcast()
	h.mu.Unlock()
}

// FailWrites makes every further Write of this side fail with err, without
// closing anything (a broken outgoing path).
func (c *Conn) FailWrites(err error) {
	h := c.wr
	h.mu.Lock()
	h.writeErr = err
	h.mu.Unlock()
}

// StallReads makes this side stop taking data from the connection (a process
// that is not scheduled, or stuck elsewhere): its reads wait, the peer's
// writes fill the buffer and then block. A reset or a local Close still ends
// a stalled read.
func (c *Conn) StallReads(b bool) {
	h := c.rd
	h.mu.Lock()
	h.stalled = b
	h.broadcast()
	h.mu.Unlock()
}

// Dead tells whether the connection was closed by either side or reset.
func (c *Conn) Dead() bool {
	if c.isClosed() || c.peer.isClosed() {
		return true
	}
	c.rd.mu.Lock()
	defer c.rd.mu.Unlock()
	return c.rd.reset
}

// Unread returns how many bytes are buffered towards this side.
func (c *Conn) Unread() int {
	c.rd.mu.Lock()
	defer c.rd.mu.Unlock()
	return len(c.rd.buf)
}

func (nw *Network) newPair(local, remote Addr, syncPipe bool, dialNode, acceptNode string) (*Conn, *Conn) {
	nw.mu.Lock()
	capacity := nw.cfg.Capacity
	id := len(nw.conns)
	a2b := newHalf(capacity, syncPipe)
	b2a := newHalf(capacity, syncPipe)
	a := &Conn{nw: nw, pair: id, side: 0, rd: b2a, wr: a2b, local: local, remote: remote, node: dialNode, faultable: true}
	b := &Conn{nw: nw, pair: id, side: 1, rd: a2b, wr: b2a, local: remote, remote: local, node: acceptNode, faultable: true}
	a.peer, b.peer = b, a
	nw.conns = append(nw.conns, a)
	nw.mu.Unlock()
	return a, b
}

func (c *Conn) ioYield(site string) {
	if c.nw.cfg.IOYield {
		zzsim.Yield(site)
	} else {
		zzsim.W(site)
	}
}

// abort resets the connection in both directions.
func (c *Conn) abort() {
	for _, h := range []*half{c.rd, c.wr} {
		h.mu.Lock()
		if !h.reset {
			h.reset = true
			h.buf = nil
			h.broadcast()
		}
		h.mu.Unlock()
	}
}

// Abort is the harness view of a reset (for instance the crash of a node).
func (c *Conn) Abort() {
	zzsim.Event("abort pair=%d side=%d", c.pair, c.side)
	c.abort()
}

// closeGraceful is what the application on side c calling Close looks like to
// the peer.
func (c *Conn) closeGraceful() {
	c.wr.mu.Lock()
	c.wr.wclosed = true
	c.wr.broadcast()
	c.wr.mu.Unlock()
	c.rd.mu.Lock()
	c.rd.rclosed = true
	c.rd.buf = nil
	c.rd.broadcast()
	c.rd.mu.Unlock()
}

func (c *Conn) isClosed() bool {
	c.mu.Lock()
	defer c.mu.Unlock()
	return c.closed
}

func (c *Conn) applyFault(f string) (handled bool) {
	switch f {
	case FReset:
		c.nw.fire(FReset)
		c.abort()
	case FClosePeer:
		c.nw.fire(FClosePeer)
		c.peer.mu.Lock()
		already := c.peer.closed
		c.peer.closed = true
		c.peer.mu.Unlock()
		if !already {
			c.peer.closeGraceful()
		}
	case FCloseLocal:
		c.nw.fire(FCloseLocal)
		c.mu.Lock()
		already := c.closed
		c.closed = true
		c.mu.Unlock()
		if !already {
			c.closeGraceful()
		}
	case FCrash:
		c.nw.fire(FCrash)
		c.nw.CrashNode(c.peer.node)
	default:
		return false
	}
	return true
}

// CrashNode resets every connection that has a side on the given node.
func (nw *Network) CrashNode(node string) {
	for _, c := range nw.Conns() {
		if c.node == node || c.peer.node == node {
			c.abort()
		}
	}
	nw.mu.Lock()
	var ls []*Listener
	for _, l := range nw.listeners {
		if l.node == node {
			ls = append(ls, l)
		}
	}
	nw.mu.Unlock()
	for _, l := range ls {
		l.Close()
	}
}

// Read implements net.Conn.
func (c *Conn) Read(p []byte) (int, error) {
	c.ioYield("net.Read")
	if f := c.nw.nextOp(c, "read", len(p)); f != "" {
		if f == FWriteErr {
			f = FReset
		}
		c.applyFault(f)
	}
	h := c.rd
	for {
		if c.isClosed() {
			return 0, ErrClosed
		}
		h.mu.Lock()
		if h.reset {
			h.mu.Unlock()
			return 0, ErrReset
		}
		if h.cutOn && h.rdOff >= h.cutAt {
			// the peer died after exactly cutAt bytes had got through
			first := !h.cutDone
			h.cutDone = true
			h.buf = nil
			rst := h.cutRst
			h.mu.Unlock()
			if first {
				c.nw.fire(FCut)
				zzsim.Event("incoming stream of pair=%d side=%d cut after %d bytes", c.pair, c.side, h.cutAt)
				// the other direction dies with the peer
				w := c.wr
				w.mu.Lock()
				w.reset = true
				w.buf = nil
				w.broadcast()
				w.mu.Unlock()
			}
			if rst {
				return 0, ErrReset
			}
			return 0, io.EOF
		}
		if len(h.buf) > 0 && len(p) > 0 && !h.stalled {
			avail := len(h.buf)
			if avail > len(p) {
				avail = len(p)
			}
			if h.cutOn && h.rdOff+avail > h.cutAt {
				avail = h.cutAt - h.rdOff
			}
			h.mu.Unlock()
			n := c.readSize(avail)
			h.mu.Lock()
			if h.reset {
				h.mu.Unlock()
				return 0, ErrReset
			}
			if n > len(h.buf) {
				n = len(h.buf)
			}
			copy(p, h.buf[:n])
			h.buf = h.buf[n:]
			h.rdOff += n
			h.rmarks = append(h.rmarks, Mark{zzsim.Seq(), h.rdOff})
			last := len(h.buf) == 0 && h.wclosed
			h.broadcast()
			h.mu.Unlock()
			if n < avail {
				c.nw.fire(FFrag)
			}
			zzsim.EventKey(fmt.Sprintf("read %d %d", c.pair, c.side), "read pair=%d side=%d n=%d", c.pair, c.side, n)
			if last && c.nw.cfg.EOFData > 0 && zzsim.Chance(c.nw.cfg.EOFData, 100) {
				c.nw.fire(FEOFData)
				return n, io.EOF
			}
			return n, nil
		}
		if len(p) == 0 {
			h.mu.Unlock()
			return 0, nil
		}
		if h.wclosed && !h.stalled {
			h.mu.Unlock()
			return 0, io.EOF
		}
		ch := h.wait
		h.mu.Unlock()
		c.mu.Lock()
		dl := c.rdeadline
		c.mu.Unlock()
		if waitUntil(ch, dl, "net.Read.blocked") {
			zzsim.W("net.Read.wake")
			c.nw.fire(FTimeout)
			return 0, ErrTimeout
		}
		zzsim.W("net.Read.wake")
	}
}

func (c *Conn) readSize(avail int) int {
	if avail <= 1 {
		return avail
	}
	switch c.nw.cfg.ReadMode {
	case "byte":
		return 1
	case "tiny":
		k := 1 + zzsim.Draw(4)
		if k > avail {
			k = avail
		}
		return k
	case "random":
		// 0 = everything available
		d := zzsim.Skewed(avail, 50)
		return avail - d
	}
	return avail
}

// Write implements net.Conn: atomic with respect to other Write calls.
func (c *Conn) Write(p []byte) (int, error) {
	c.ioYield("net.Write")
	h := c.wr
	h.wlock.Lock()
	defer h.wlock.Unlock()
	h.mu.Lock()
	broken := h.writeErr
	h.mu.Unlock()
	if broken != nil {
		// the outgoing direction is broken for good (harness controlled);
		// the incoming one and the connection itself stay as they are
		c.nw.fire(FWriteBroken)
		return 0, broken
	}
	limit := len(p)
	failAfter := false
	if f := c.nw.nextOp(c, "write", len(p)); f != "" {
		if f == FWriteErr {
			c.nw.fire(FWriteErr)
			limit = zzsim.Draw(len(p) + 1)
			if limit == len(p) && limit > 0 {
				limit--
			}
			failAfter = true
		} else {
			c.applyFault(f)
		}
	}
	n := 0
	stalled := false
	for {
		if c.isClosed() {
			return n, ErrClosed
		}
		h.mu.Lock()
		if h.reset {
			h.mu.Unlock()
			return n, ErrReset
		}
		if h.rclosed {
			h.mu.Unlock()
			if c.nw.cfg.LateWrite {
				c.nw.fire("late-write-accepted")
				zzsim.Event("write pair=%d side=%d n=%d (after peer close: lost)", c.pair, c.side, len(p))
				c.ioYield("net.Write.ret")
				return len(p), nil
			}
			return n, ErrPipe
		}
		if n < limit {
			space := limit - n
			if h.cap > 0 && !h.sync {
				if free := h.cap - len(h.buf); free < space {
					space = free
				}
			}
			if space > 0 {
				h.buf = append(h.buf, p[n:n+space]...)
				h.tap = append(h.tap, p[n:n+space]...)
				n += space
				h.wmarks = append(h.wmarks, Mark{zzsim.Seq(), len(h.tap)})
				h.broadcast()
				h.mu.Unlock()
				continue
			}
		} else if !h.sync || len(h.buf) == 0 {
			h.mu.Unlock()
			break
		}
		if !stalled && !h.sync {
			stalled = true
			c.nw.fire(FStallWrite)
		}
		ch := h.wait
		h.mu.Unlock()
		c.mu.Lock()
		dl := c.wdeadline
		c.mu.Unlock()
		if waitUntil(ch, dl, "net.Write.blocked") {
			zzsim.W("net.Write.wake")
			c.nw.fire(FTimeout)
			zzsim.Event("write pair=%d side=%d timed out after %d of %d bytes", c.pair, c.side, n, len(p))
			return n, ErrTimeout
		}
		zzsim.W("net.Write.wake")
	}
	zzsim.EventKey(fmt.Sprintf("write %d %d", c.pair, c.side), "write pair=%d side=%d n=%d", c.pair, c.side, n)
	if failAfter {
		c.abort()
		return n, ErrReset
	}
	c.ioYield("net.Write.ret")
	h.mu.Lock()
	h.retmark = append(h.retmark, Mark{zzsim.Seq(), len(h.tap)})
	h.mu.Unlock()
	return n, nil
}

// Close implements net.Conn.
func (c *Conn) Close() error {
	c.ioYield("net.Close")
	c.nw.nextOp(c, "close", 0)
	c.mu.Lock()
	if c.closed {
		c.mu.Unlock()
		return ErrClosed
	}
	c.closed = true
	c.mu.Unlock()
	zzsim.Event("close pair=%d side=%d", c.pair, c.side)
	if c.osPipe {
		c.closeGraceful()
		return nil
	}
	if c.nw.cfg.CloseErr > 0 {
		c.wr.mu.Lock()
		gone := c.wr.reset || c.wr.rclosed
		c.wr.mu.Unlock()
		if gone && zzsim.Chance(c.nw.cfg.CloseErr, 100) {
			c.nw.fire("close-reports-error")
			c.closeGraceful()
			return ErrPipe
		}
	}
	if c.nw.cfg.Abortive > 0 && zzsim.Chance(c.nw.cfg.Abortive, 100) {
		c.nw.fire("close-abortive")
		c.abort()
		return nil
	}
	c.closeGraceful()
	return nil
}

func (c *Conn) LocalAddr() net.Addr  { return c.local }
func (c *Conn) RemoteAddr() net.Addr { return c.remote }

// Deadlines are honoured on the simulated clock: a Read or a Write still
// blocked when its deadline passes returns what it has done so far and a
// timeout error (a Write: the bytes already accepted stay in the stream).
func (c *Conn) SetDeadline(t time.Time) error {
	c.SetReadDeadline(t)
	return c.SetWriteDeadline(t)
}
func (c *Conn) SetReadDeadline(t time.Time) error {
	c.mu.Lock()
	c.rdeadline = t
	c.mu.Unlock()
	return nil
}
func (c *Conn) SetWriteDeadline(t time.Time) error {
	c.mu.Lock()
	c.wdeadline = t
	c.mu.Unlock()
	return nil
}

// ErrTimeout is what an operation returns when its deadline passes.
var ErrTimeout error = timeoutError{}

type timeoutError struct{}

func (timeoutError) Error() string   { return "simnet: i/o timeout" }
func (timeoutError) Timeout() bool   { return true }
func (timeoutError) Temporary() bool { return true }

// waitUntil blocks until ch fires or the deadline passes (zero: never);
// it reports whether the deadline passed.
func waitUntil(ch chan struct{}, deadline time.Time, site string) bool {
	zzsim.Blocking(site)
	if deadline.IsZero() {
		<-ch
		return false
	}
	d := time.Until(deadline)
	if d <= 0 {
		select {
		case <-ch:
			return false
		default:
			return true
		}
	}
	t := time.NewTimer(d)
	defer t.Stop()
	select {
	case <-ch:
		return false
	case <-t.C:
		return true
	}
}

// ---------------------------------------------------------------------------

// Listener is a simulated listening socket.
type Listener struct {
	nw     *Network
	addr   Addr
	mu     sync.Mutex
	q      []*Conn
	wait   chan struct{}
	closed bool
	node   string
	// AcceptFail makes the next n Accept calls fail (harness controlled).
	AcceptFail int
}

func key(network, addr string) string { return network + "://" + addr }

// Listen opens a simulated listening socket.
func Listen(network, addr string) (*Listener, error) {
	nw := current()
	if nw == nil {
		return nil, fmt.Errorf("simnet: no simulation active")
	}
	nw.mu.Lock()
	defer nw.mu.Unlock()
	k := key(network, addr)
	if _, ok := nw.listeners[k]; ok {
		return nil, fmt.Errorf("simnet: listen %s: address already in use", k)
	}
	l := &Listener{nw: nw, addr: Addr{network, addr}, wait: make(chan struct{}), node: zzsim.Node()}
	nw.listeners[k] = l
	return l, nil
}

// Accept waits for a connection.
func (l *Listener) Accept() (net.Conn, error) {
	zzsim.W("net.Accept")
	for {
		l.mu.Lock()
		if l.closed {
			l.mu.Unlock()
			return nil, ErrClosed
		}
		if l.AcceptFail > 0 {
			l.AcceptFail--
			l.mu.Unlock()
			return nil, errors.New("simnet: accept: too many open files")
		}
		if len(l.q) > 0 {
			c := l.q[0]
			l.q = l.q[1:]
			l.mu.Unlock()
			zzsim.Event("accept pair=%d", c.pair)
			return c, nil
		}
		ch := l.wait
		l.mu.Unlock()
		<-ch
		zzsim.W("net.Accept.wake")
	}
}

// Close closes the listener.
func (l *Listener) Close() error {
	l.mu.Lock()
	if l.closed {
		l.mu.Unlock()
		return ErrClosed
	}
	l.closed = true
	close(l.wait)
	l.wait = make(chan struct{})
	l.mu.Unlock()
	l.nw.mu.Lock()
	delete(l.nw.listeners, key(l.addr.Net, l.addr.Str))
	l.nw.mu.Unlock()
	return nil
}

// Addr returns the listening address.
func (l *Listener) Addr() net.Addr { return l.addr }

// DialFail makes dialing `addr` fail n times (harness controlled).
var dialSeq int

// Dial connects to a simulated listener.
func Dial(network, addr string) (*Conn, error) {
	nw := current()
	if nw == nil {
		return nil, fmt.Errorf("simnet: no simulation active")
	}
	zzsim.Yield("net.Dial")
	nw.mu.Lock()
	l := nw.listeners[key(network, addr)]
	var planned string
	global := len(nw.ops)
	for _, f := range nw.plan {
		if f.Pair == -1 && f.Op == global && f.Kind == FDialFail {
			planned = f.Kind
		}
	}
	nw.ops = append(nw.ops, OpRec{Pair: -1, Kind: "dial"})
	nw.mu.Unlock()
	if planned != "" {
		nw.fire(FDialFail)
		return nil, ErrRefused
	}
	if l == nil {
		return nil, ErrRefused
	}
	l.mu.Lock()
	if l.closed {
		l.mu.Unlock()
		return nil, ErrRefused
	}
	l.mu.Unlock()
	a, b := nw.newPair(Addr{network, fmt.Sprintf("client-%d", len(nw.Conns()))}, Addr{network, addr}, false, zzsim.Node(), l.node)
	l.mu.Lock()
	l.q = append(l.q, b)
	close(l.wait)
	l.wait = make(chan struct{})
	l.mu.Unlock()
	zzsim.Event("dial pair=%d %s", a.pair, addr)
	return a, nil
}

// Pipe returns a synchronous in-memory connection like net.Pipe.
func Pipe() (*Conn, *Conn) {
	nw := current()
	if nw == nil {
		panic("simnet: no simulation active")
	}
	node := zzsim.Node()
	// (every pipe has addresses of its own: the code under test may tell its
	// connections apart by them)
	n := len(nw.Conns())
	a, b := nw.newPair(Addr{"pipe", fmt.Sprintf("pipe-%d-a", n)}, Addr{"pipe", fmt.Sprintf("pipe-%d-b", n)}, true, node, node)
	a.faultable, b.faultable = false, false
	return a, b
}

// OSPipe returns the write end and the read end of a simulated operating
// system pipe: one direction of a pair, never reset, never closed abortively,
// outside the reach of the fault plan (a pipe does not fail; its ends get
// closed).
func OSPipe() (w *Conn, r *Conn) {
	nw := current()
	if nw == nil {
		panic("simnet: no simulation active")
	}
	node := zzsim.Node()
	n := len(nw.Conns())
	a, b := nw.newPair(Addr{"ospipe", fmt.Sprintf("ospipe-%d-w", n)}, Addr{"ospipe", fmt.Sprintf("ospipe-%d-r", n)}, false, node, node)
	a.faultable, b.faultable = false, false
	a.osPipe, b.osPipe = true, true
	return a, b
}

// Ancillary queues something that travels beside the bytes towards this side
// (a file descriptor passed over a unix socket).
func (c *Conn) Ancillary(x interface{}) {
	c.mu.Lock()
	c.anc = append(c.anc, x)
	c.mu.Unlock()
}

// TakeAncillary takes up to n of the things queued for this side.
func (c *Conn) TakeAncillary(n int) []interface{} {
	c.mu.Lock()
	defer c.mu.Unlock()
	if n > len(c.anc) {
		n = len(c.anc)
	}
	out := c.anc[:n:n]
	c.anc = c.anc[n:]
	return out
}

// BufferedPair returns a connected pair without a listener (harness API).
func BufferedPair(nodeA, nodeB string) (*Conn, *Conn) {
	nw := current()
	if nw == nil {
		panic("simnet: no simulation active")
	}
	return nw.newPair(Addr{"sim", "a"}, Addr{"sim", "b"}, false, nodeA, nodeB)
}
