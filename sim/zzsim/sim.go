// Package zzsim is the runtime of the deterministic simulation (DESIGN.md
// section 3.3). One Sim is active per process at a time. All goroutines of a
// run live in one testing/synctest bubble; exactly one of them holds the run
// token; the bubble's root goroutine is the scheduler (Loop).
package zzsim

import (
	"fmt"
	"hash/fnv"
	"math"
	"math/rand/v2"
	"reflect"
	"runtime"
	"sort"
	"strconv"
	"strings"
	"sync"
	"sync/atomic"
	"testing/synctest"
	"time"
	"unsafe"
)

// Config of one run. Everything here is part of the replay file.
type Config struct {
	MeanGap      int      `json:"mean_gap"`   // mean number of (weighted) yield points between preemptions; 0 = never preempt
	HotFiles     []string `json:"hot_files"`  // site prefixes where a yield point counts HotWeight times
	HotWeight    int      `json:"hot_weight"` // weight of hot sites (default 1)
	Policy       string   `json:"policy"`     // uniform | sticky | starve
	Sticky       int      `json:"sticky"`     // percent chance to keep the previous goroutine (policy sticky)
	StepCap      int64    `json:"step_cap"`
	YieldCap     int64    `json:"yield_cap,omitempty"`      // yield points after which the run is ended like at the step cap
	MaxIdleMs    int      `json:"max_idle_ms"`              // simulated time without runnable goroutine before quiescence is declared
	AuxRepeatPct int      `json:"aux_repeat_pct,omitempty"` // percent of the values of the math/rand shim that repeat one of the last four
	AuxSeed      uint64   `json:"aux_seed"`                 // seed of math/rand shim and other non-decision randomness
	MapOrder     int      `json:"map_order,omitempty"`      // 1: a range over a map of the code under test starts at a drawn key and runs in a drawn direction (0: sorted keys)
	Trace        bool     `json:"-"`
}

// Crash is the death of a node's process: a panic in one of its goroutines or
// a fatal runtime error reported by a shim.
type Crash struct {
	Node      string `json:"node"`
	Goroutine string `json:"goroutine"`
	Msg       string `json:"msg"`
	Stack     string `json:"stack"`
	Seq       int64  `json:"seq"`
}

// (policy pct) Sticky is the percent chance, at a decision where the running
// goroutine could go on, that it is demoted below everybody else.

// G is a simulated goroutine.
type G struct {
	id       uint64
	name     string
	node     string
	resume   chan struct{}
	parked   bool
	site     string
	children int
	done     bool
	waiting  bool // waiting for quiescence
	prio     int  // policy pct: the runnable goroutine with the highest priority runs
	hasPrio  bool
	// tick counts what the goroutine has done that may order it after others:
	// scheduling points passed and synchronisation operations entered. Two
	// moments with the same tick have nothing of the kind between them.
	tick uint64
}

// MapRace is a pair of conflicting accesses to one map, by two goroutines,
// that nothing orders: the second happened while the goroutine of the first
// had not executed anything since its own (it stood at the scheduling point
// that follows the statement, or before it). With real threads the two may
// run at the same instant, which the run-time answers with a fatal error
// ("concurrent map read and map write", "concurrent map writes").
type MapRace struct {
	First, Second           string // statement sites
	FirstWrite, SecondWrite bool
	G1, G2                  string
	Node                    string
}

type mapRec struct {
	g     *G
	tick  uint64
	write bool
	site  string
}

// GInfo describes a goroutine alive at the end of a run.
type GInfo struct {
	Name string `json:"name"`
	Node string `json:"node"`
	Site string `json:"site"`
}

// Stats of a run.
type Stats struct {
	Steps       int64   `json:"steps"`    // scheduler decisions
	Switches    int64   `json:"switches"` // decisions that changed the running goroutine
	Yields      int64   `json:"yields"`   // yield points executed by the token holder
	Preempts    int64   `json:"preempts"`
	MapOrders   int64   `json:"map_orders"` // ranges over maps whose order the run decided
	Goroutines  int     `json:"goroutines"`
	SimSeconds  float64 `json:"sim_seconds"`
	Fingerprint uint64  `json:"fingerprint"`
	EventFP     uint64  `json:"event_fp"`
	TapeLen     int     `json:"tape_len"`
}

// Sim is one simulated execution.
type Sim struct {
	mu          sync.Mutex
	cfg         Config
	gs          map[uint64]*G
	all         []*G
	holder      *G
	last        *G
	tape        *Tape
	aux         *rand.Rand
	gap         int
	calm        bool // Calm(true): yield points do not count towards the next preemption
	pctLow      int // policy pct: next priority below everybody else
	weights     map[string]int
	seq         atomic.Int64
	stats       Stats
	crashes     []Crash
	abort       bool
	capHit      bool
	start       time.Time
	trace       []string
	fp          uint64
	efp         uint64
	Ext         map[string]interface{}
	waiters     []*G
	auxForced   []uint64
	yieldCapHit bool
	maps        map[unsafe.Pointer][]mapRec
	races       []MapRace
}

var cur atomic.Pointer[Sim]

// Current returns the active simulation or nil.
func Current() *Sim { return cur.Load() }

// New creates a simulation; it becomes active with Activate.
func New(cfg Config, tape *Tape) *Sim {
	if cfg.HotWeight <= 0 {
		cfg.HotWeight = 1
	}
	if cfg.StepCap <= 0 {
		cfg.StepCap = 300000
	}
	if cfg.MaxIdleMs <= 0 {
		cfg.MaxIdleMs = 3000
	}
	s := &Sim{
		cfg:     cfg,
		gs:      map[uint64]*G{},
		tape:    tape,
		aux:     rand.New(rand.NewPCG(cfg.AuxSeed, 0x9e3779b97f4a7c15)),
		weights: map[string]int{},
		Ext:     map[string]interface{}{},
		fp:      14695981039346656037,
		efp:     14695981039346656037,
	}
	return s
}

// OnRunStart registers a function to be called when a run begins. The
// instrumenter emits one per package that keeps scalar state in package level
// variables (counters): every run starts from the state a fresh process has.
func OnRunStart(f func()) {
	runStartMu.Lock()
	runStart = append(runStart, f)
	runStartMu.Unlock()
}

var (
	runStartMu sync.Mutex
	runStart   []func()
)

// Activate makes s the simulation seen by instrumented code.
func (s *Sim) Activate() {
	runStartMu.Lock()
	for _, f := range runStart {
		f()
	}
	runStartMu.Unlock()
	s.start = time.Now()
	s.mu.Lock()
	s.gap = s.drawGapLocked()
	s.mu.Unlock()
	cur.Store(s)
}

// Deactivate detaches instrumented code from s: yield points become no-ops.
func (s *Sim) Deactivate() {
	cur.CompareAndSwap(s, nil)
}

func (s *Sim) weight(site string) int {
	if len(s.cfg.HotFiles) == 0 {
		return 1
	}
	w, ok := s.weights[site]
	if ok {
		return w
	}
	w = 1
	for _, h := range s.cfg.HotFiles {
		if strings.HasPrefix(site, h) {
			w = s.cfg.HotWeight
			break
		}
	}
	s.weights[site] = w
	return w
}

func (s *Sim) drawGapLocked() int {
	if s.cfg.MeanGap <= 0 {
		return math.MaxInt
	}
	v := s.tape.draw(1<<30, func(r *rand.Rand) int {
		// geometric with the configured mean, at least 1
		u := r.Float64()
		g := int(-math.Log(1-u)*float64(s.cfg.MeanGap)) + 1
		if g >= 1<<30 {
			g = 1<<30 - 1
		}
		return g
	})
	if v == 0 {
		return math.MaxInt
	}
	return v
}

// W is the yield point inserted before every statement of instrumented code:
// a goroutine which does not hold the run token parks; the holder may be
// preempted.
// cover counts, per yield site of the instrumented code, how often a running
// goroutine passed it (all runs of this process; only touched under Sim.mu,
// and one simulation runs at a time).
var cover = map[string]int{}

// CoverSnapshot returns a copy of the site counters.
func CoverSnapshot() map[string]int {
	m := make(map[string]int, len(cover))
	for k, v := range cover {
		m[k] = v
	}
	return m
}

func W(site string) {
	s := cur.Load()
	if s == nil {
		return
	}
	s.yield(site, false)
}

// Yield is a forced scheduling decision (used at I/O boundaries): the holder
// parks and the scheduler chooses who continues (choice 0 = the same).
func Yield(site string) {
	s := cur.Load()
	if s == nil {
		return
	}
	s.yield(site, true)
}

func (s *Sim) yield(site string, force bool) {
	id := goid()
	s.mu.Lock()
	g := s.gs[id]
	if g == nil {
		s.mu.Unlock()
		return
	}
	if s.holder == g {
		s.stats.Yields++
		g.site = site
		if s.cfg.YieldCap > 0 && s.stats.Yields > s.cfg.YieldCap {
			// the run has passed more yield points than any run of its kind
			// should: hand over to the scheduler, which ends it
			s.yieldCapHit = true
			force = true
		}
		if !force {
			cover[site]++
			if s.calm {
				g.tick++
				s.mu.Unlock()
				return
			}
			s.gap -= s.weight(site)
			if s.gap > 0 {
				g.tick++
				s.mu.Unlock()
				return
			}
			s.gap = s.drawGapLocked()
			s.stats.Preempts++
		}
		s.holder = nil
	}
	g.parked = true
	g.site = site
	s.mu.Unlock()
	<-g.resume
}

// Calm switches statement-level preemption off (true) and on again (false):
// for the long preparations of a scenario - a thousand registrations made by
// one goroutine before anybody else is at work - whose yield points would
// otherwise use up the run's budget of scheduling decisions. Blocking points
// and I/O remain scheduling decisions.
func Calm(on bool) {
	s := cur.Load()
	if s == nil {
		return
	}
	s.mu.Lock()
	s.calm = on
	s.mu.Unlock()
}

// Blocking records where the calling goroutine is about to block (shims call
// it right before waiting on a channel) so that a hang can be explained.
func Blocking(site string) {
	s := cur.Load()
	if s == nil {
		return
	}
	id := goid()
	s.mu.Lock()
	if g := s.gs[id]; g != nil {
		if !strings.Contains(g.site, " <- ") {
			g.site = site + " <- " + g.site
		} else {
			g.site = site + " <- " + g.site[strings.Index(g.site, " <- ")+4:]
		}
	}
	s.mu.Unlock()
}

// Ticket names a goroutine before it starts.
type Ticket struct {
	s    *Sim
	name string
	node string
	g    *G
}

func shortSite(site string) string {
	if i := strings.LastIndexByte(site, '/'); i >= 0 {
		return site[i+1:]
	}
	return site
}

// Spawn is called in the parent right before a go statement.
func Spawn(site string) *Ticket {
	s := cur.Load()
	if s == nil {
		return nil
	}
	id := goid()
	s.mu.Lock()
	defer s.mu.Unlock()
	g := s.gs[id]
	if g == nil {
		return nil
	}
	g.children++
	return &Ticket{s: s, name: g.name + "." + strconv.Itoa(g.children) + "(" + shortSite(site) + ")", node: g.node}
}

// Start is the first thing the child goroutine does.
func (t *Ticket) Start() {
	if t == nil {
		return
	}
	s := t.s
	g := &G{id: goid(), name: t.name, node: t.node, resume: make(chan struct{})}
	t.g = g
	s.mu.Lock()
	s.gs[g.id] = g
	s.all = append(s.all, g)
	s.stats.Goroutines++
	g.parked = true
	g.site = "start"
	s.mu.Unlock()
	<-g.resume
}

type goexit struct{}

// Done is deferred by the child goroutine; it records a panic as the crash of
// the goroutine's node.
func (t *Ticket) Done() {
	r := recover()
	if t == nil {
		if r != nil {
			panic(r)
		}
		return
	}
	s := t.s
	g := t.g
	s.mu.Lock()
	if r != nil {
		if _, ok := r.(goexit); !ok {
			s.crashLocked(g, fmt.Sprintf("panic: %v", r))
		}
	}
	if g != nil {
		g.done = true
		delete(s.gs, g.id)
		if s.holder == g {
			s.holder = nil
		}
	}
	s.mu.Unlock()
}

func (s *Sim) crashLocked(g *G, msg string) {
	buf := make([]byte, 8192)
	n := runtime.Stack(buf, false)
	c := Crash{Msg: msg, Stack: trimStack(string(buf[:n])), Seq: s.seq.Add(1)}
	if g != nil {
		c.Node = g.node
		c.Goroutine = g.name
	}
	s.crashes = append(s.crashes, c)
	s.abort = true
}

func trimStack(st string) string {
	lines := strings.Split(st, "\n")
	var out []string
	for _, l := range lines {
		if strings.Contains(l, "zzsim.") || strings.Contains(l, "/zzsim/") {
			continue
		}
		if strings.HasPrefix(l, "\t") {
			// keep file:line only, drop +0x...
			if i := strings.Index(l, " +0x"); i > 0 {
				l = l[:i]
			}
			if i := strings.LastIndex(l, "/repo/"); i >= 0 {
				l = "\t" + l[i+6:]
			}
		} else if i := strings.LastIndexByte(l, '('); i > 0 {
			l = l[:i] + "(...)"
		}
		out = append(out, l)
		if len(out) > 40 {
			break
		}
	}
	return strings.Join(out, "\n")
}

// Fatal models a fatal runtime error (for instance unlocking an unlocked
// mutex): the node's process dies. The calling goroutine does not return.
func Fatal(msg string) {
	s := cur.Load()
	if s == nil {
		panic(msg)
	}
	id := goid()
	s.mu.Lock()
	g := s.gs[id]
	s.crashLocked(g, msg)
	s.mu.Unlock()
	if g == nil {
		panic(msg)
	}
	panic(goexit{})
}

// Go starts a named goroutine of node `node` (harness API).
func (s *Sim) Go(name, node string, fn func()) {
	t := &Ticket{s: s, name: name, node: node}
	go func() {
		t.Start()
		defer t.Done()
		fn()
	}()
}

// Node returns the node of the calling goroutine ("" when unknown).
func Node() string {
	s := cur.Load()
	if s == nil {
		return ""
	}
	id := goid()
	s.mu.Lock()
	defer s.mu.Unlock()
	if g := s.gs[id]; g != nil {
		return g.node
	}
	return ""
}

// SetNode changes the node of the calling goroutine (children inherit it).
func SetNode(node string) {
	s := cur.Load()
	if s == nil {
		return
	}
	id := goid()
	s.mu.Lock()
	defer s.mu.Unlock()
	if g := s.gs[id]; g != nil {
		g.node = node
	}
}

// GName returns the simulated name of the calling goroutine.
func GName() string {
	s := cur.Load()
	if s == nil {
		return ""
	}
	id := goid()
	s.mu.Lock()
	defer s.mu.Unlock()
	if g := s.gs[id]; g != nil {
		return g.name
	}
	return ""
}

// Seq returns the next global event sequence number.
func Seq() int64 {
	s := cur.Load()
	if s == nil {
		return 0
	}
	return s.seq.Add(1)
}

// Event mixes an inter-goroutine communication event into the event-order
// fingerprint and, when tracing, into the event log.
func Event(format string, args ...interface{}) {
	s := cur.Load()
	if s == nil {
		return
	}
	msg := fmt.Sprintf(format, args...)
	s.mu.Lock()
	h := fnv.New64a()
	h.Write([]byte(msg))
	s.efp = (s.efp ^ h.Sum64()) * 1099511628211
	if s.cfg.Trace {
		s.trace = append(s.trace, msg)
	}
	s.mu.Unlock()
}

// EventKey is Event with a separate fingerprint key: the event log gets the
// full message, the event-order fingerprint only the key. Used where the
// message carries a quantity that the code under test does not determine
// (byte counts of error texts that embed heap addresses).
func EventKey(key, format string, args ...interface{}) {
	s := cur.Load()
	if s == nil {
		return
	}
	s.mu.Lock()
	h := fnv.New64a()
	h.Write([]byte(key))
	s.efp = (s.efp ^ h.Sum64()) * 1099511628211
	if s.cfg.Trace {
		s.trace = append(s.trace, fmt.Sprintf(format, args...))
	}
	s.mu.Unlock()
}

// Tracing tells whether an event log is kept.
func Tracing() bool {
	s := cur.Load()
	return s != nil && s.cfg.Trace
}

// Draw returns a tape decision in [0,n); in record mode uniformly random.
func Draw(n int) int {
	s := cur.Load()
	if s == nil || n <= 1 {
		return 0
	}
	s.mu.Lock()
	defer s.mu.Unlock()
	return s.tape.draw(n, func(r *rand.Rand) int { return r.IntN(n) })
}

// Chance returns true with probability num/den in record mode; on replay the
// recorded outcome; false when the tape is exhausted.
func Chance(num, den int) bool {
	s := cur.Load()
	if s == nil || num <= 0 {
		return false
	}
	s.mu.Lock()
	defer s.mu.Unlock()
	return s.tape.draw(2, func(r *rand.Rand) int {
		if r.IntN(den) < num {
			return 1
		}
		return 0
	}) == 1
}

// Skewed returns a decision in [0,n) that is 0 with probability
// zeroPct/100 and uniform otherwise (record mode).
func Skewed(n, zeroPct int) int {
	s := cur.Load()
	if s == nil || n <= 1 {
		return 0
	}
	s.mu.Lock()
	defer s.mu.Unlock()
	return s.tape.draw(n, func(r *rand.Rand) int {
		if r.IntN(100) < zeroPct {
			return 0
		}
		return r.IntN(n)
	})
}

// Aux returns deterministic non-decision randomness (object ids and such).
func Aux() uint64 {
	s := cur.Load()
	if s == nil {
		return rand.Uint64()
	}
	s.mu.Lock()
	defer s.mu.Unlock()
	v := s.aux.Uint64()
	return v
}

// AuxUint32 is Aux for 32 bit draws: values queued with AuxForce come first.
func AuxUint32() uint32 {
	s := cur.Load()
	if s != nil {
		s.mu.Lock()
		if len(s.auxForced) > 0 {
			v := s.auxForced[0]
			s.auxForced = s.auxForced[1:]
			s.mu.Unlock()
			return uint32(v)
		}
		s.mu.Unlock()
	}
	return uint32(Aux() >> 32)
}

// AuxForce makes the next 32 bit draws of the math/rand shim return the given
// values (a random source may return any value: here it returns awkward ones).
func AuxForce(vs ...uint64) {
	s := cur.Load()
	if s == nil {
		return
	}
	s.mu.Lock()
	s.auxForced = append(s.auxForced, vs...)
	s.mu.Unlock()
}

// SelOrder gives the poll order of a multi-way select.
func SelOrder(site string, n int) []int {
	o := make([]int, n)
	for i := range o {
		o[i] = i
	}
	s := cur.Load()
	if s == nil {
		rand.Shuffle(n, func(i, j int) { o[i], o[j] = o[j], o[i] })
		return o
	}
	s.mu.Lock()
	defer s.mu.Unlock()
	for i := 0; i < n-1; i++ {
		k := n - i
		j := s.tape.draw(k, func(r *rand.Rand) int { return r.IntN(k) })
		o[i], o[i+j] = o[i+j], o[i]
	}
	return o
}

// SortedKeys returns the keys of a map in increasing order.
// KeyOrder, when set (by the harness), gives keys that have no order of their
// own (interfaces, pointers) a name to be ordered by, stable from one process
// to the next: the range over such a map then follows it.
var KeyOrder func(k interface{}) (string, bool)

func SortedKeys(m interface{}) []interface{} {
	v := reflect.ValueOf(m)
	keys := v.MapKeys()
	if len(keys) > 0 && (keys[0].Kind() == reflect.Interface || keys[0].Kind() == reflect.Ptr) {
		// keys without an order of their own: the harness names them. Each key
		// is named once, before the sort (naming may run instrumented code:
		// the number of calls must not depend on the order the map gave)
		type named struct {
			k    reflect.Value
			name string
		}
		ns := make([]named, len(keys))
		all := KeyOrder != nil
		for i, k := range keys {
			ns[i].k = k
			if all && k.CanInterface() {
				name, ok := KeyOrder(k.Interface())
				ns[i].name = name
				all = all && ok
			} else {
				all = false
			}
		}
		if all {
			sort.SliceStable(ns, func(i, j int) bool { return ns[i].name < ns[j].name })
		}
		out := make([]interface{}, len(ns))
		for i, n := range ns {
			out[i] = n.k.Interface()
		}
		return out
	}
	sort.Slice(keys, func(i, j int) bool {
		a, b := keys[i], keys[j]
		switch a.Kind() {
		case reflect.String:
			return a.String() < b.String()
		case reflect.Int, reflect.Int8, reflect.Int16, reflect.Int32, reflect.Int64:
			return a.Int() < b.Int()
		case reflect.Uint, reflect.Uint8, reflect.Uint16, reflect.Uint32, reflect.Uint64, reflect.Uintptr:
			return a.Uint() < b.Uint()
		case reflect.Float32, reflect.Float64:
			return a.Float() < b.Float()
		}
		return false
	})
	out := make([]interface{}, len(keys))
	for i, k := range keys {
		out[i] = k.Interface()
	}
	return out
}

// RangeKeys gives the keys of a map in the order a range loop of the code
// under test meets them. The language promises no order: with MapOrder set the
// run decides (two tape entries: where the sorted keys start, and in which
// direction they run), otherwise the keys come sorted.
func RangeKeys(m interface{}) []interface{} {
	keys := SortedKeys(m)
	s := cur.Load()
	if s == nil || s.cfg.MapOrder == 0 || len(keys) < 2 {
		return keys
	}
	n := len(keys)
	s.mu.Lock()
	start := s.tape.draw(n, func(r *rand.Rand) int { return r.IntN(n) })
	back := s.tape.draw(2, func(r *rand.Rand) int { return r.IntN(2) })
	s.stats.MapOrders++
	s.mu.Unlock()
	out := make([]interface{}, n)
	for i := range out {
		j := (start + i) % n
		if back == 1 {
			j = (start - i + n) % n
		}
		out[i] = keys[j]
	}
	return out
}

// Quiesce blocks the calling goroutine until nothing else can run (and the
// idle period has elapsed on the simulated clock).
func (s *Sim) Quiesce() {
	id := goid()
	s.mu.Lock()
	g := s.gs[id]
	if g == nil {
		s.mu.Unlock()
		panic("zzsim: Quiesce from an unregistered goroutine")
	}
	if s.holder == g {
		s.holder = nil
	}
	g.waiting = true
	g.site = "quiesce"
	s.waiters = append(s.waiters, g)
	s.mu.Unlock()
	<-g.resume
}

// Result of Loop.
type Result struct {
	Quiescent bool
	StepCap   bool
	Aborted   bool
}

func (s *Sim) parkedLocked() []*G {
	var ps []*G
	for _, g := range s.all {
		if g.parked && !g.done {
			ps = append(ps, g)
		}
	}
	sort.Slice(ps, func(i, j int) bool { return ps[i].name < ps[j].name })
	// the goroutine that ran last comes first: decision 0 = no context switch
	for i, g := range ps {
		if g == s.last {
			copy(ps[1:i+1], ps[:i])
			ps[0] = g
			break
		}
	}
	return ps
}

func (s *Sim) pickLocked(ps []*G) int {
	n := len(ps)
	if n == 1 {
		return 0
	}
	cont := ps[0] == s.last
	return s.tape.draw(n, func(r *rand.Rand) int {
		switch s.cfg.Policy {
		case "sticky":
			if cont && r.IntN(100) < s.cfg.Sticky {
				return 0
			}
		case "starve":
			// never pick the last name unless alone
			return r.IntN(n - 1)
		case "pct":
			// priority scheduling with a few change points (after Burckhardt
			// et al., "A randomized scheduler with probabilistic guarantees
			// of finding bugs"): every goroutine gets a random priority when
			// it is first seen, the runnable one with the highest priority
			// runs, and now and then the one that was running drops below
			// everybody else - it then runs only when nothing else can, which
			// is the long delay that orderings of depth two or three need.
			for _, g := range ps {
				if !g.hasPrio {
					g.hasPrio = true
					g.prio = 1<<20 + r.IntN(1<<20)
				}
			}
			if cont && r.IntN(100) < s.cfg.Sticky {
				s.pctLow--
				ps[0].prio = s.pctLow
			}
			best := 0
			for i, g := range ps {
				if g.prio > ps[best].prio {
					best = i
				}
			}
			return best
		}
		return r.IntN(n)
	})
}

// Loop is the scheduler; it runs on the bubble's root goroutine and returns
// at quiescence, at the step cap or after a crash.
func (s *Sim) Loop() Result {
	for {
		synctest.Wait()
		s.mu.Lock()
		if s.abort {
			s.mu.Unlock()
			return Result{Aborted: true}
		}
		s.holder = nil
		ps := s.parkedLocked()
		if len(ps) == 0 {
			s.mu.Unlock()
			if !s.idle() {
				return Result{Quiescent: true}
			}
			continue
		}
		s.stats.Steps++
		if s.stats.Steps > s.cfg.StepCap || s.yieldCapHit {
			s.capHit = true
			s.mu.Unlock()
			return Result{StepCap: true}
		}
		g := ps[s.pickLocked(ps)]
		s.resumeLocked(g)
		s.mu.Unlock()
		g.resume <- struct{}{}
	}
}

func (s *Sim) resumeLocked(g *G) {
	if g != s.last {
		s.stats.Switches++
		h := fnv.New64a()
		h.Write([]byte(g.name))
		h.Write([]byte{0})
		h.Write([]byte(g.site))
		s.fp = (s.fp ^ h.Sum64()) * 1099511628211
	}
	if s.cfg.Trace {
		s.trace = append(s.trace, fmt.Sprintf("sched %d: %s @ %s", s.stats.Steps, g.name, g.site))
	}
	g.parked = false
	g.waiting = false
	g.tick++
	s.holder = g
	s.last = g
}

// SyncOp is called by the synchronisation shims on entry of every operation.
func SyncOp() {
	s := cur.Load()
	if s == nil {
		return
	}
	id := goid()
	s.mu.Lock()
	if g := s.gs[id]; g != nil {
		g.tick++
	}
	s.mu.Unlock()
}

// M is inserted before a statement that reads (or writes) the map m and does
// nothing that could synchronise with another goroutine (no call, no channel
// operation). It reports the access as a race when another goroutine has
// touched the same map, one of the two writing, and has not moved since.
func M(m interface{}, write bool, site string) {
	s := cur.Load()
	if s == nil {
		return
	}
	p := reflect.ValueOf(m).UnsafePointer()
	if p == nil {
		return
	}
	id := goid()
	s.mu.Lock()
	defer s.mu.Unlock()
	g := s.gs[id]
	if g == nil {
		return
	}
	if s.maps == nil {
		s.maps = map[unsafe.Pointer][]mapRec{}
	}
	recs := s.maps[p]
	keep := recs[:0]
	own := false
	for _, r := range recs {
		if r.g.done || r.g.tick != r.tick {
			continue // its goroutine has moved on: order can no longer be excluded
		}
		if r.g == g {
			own = own || r.write // (several accesses of one statement)
			continue
		}
		if r.write || write {
			dup := false
			for _, x := range s.races {
				if x.First == r.site && x.Second == site {
					dup = true
				}
			}
			if !dup {
				s.races = append(s.races, MapRace{First: r.site, Second: site, FirstWrite: r.write, SecondWrite: write, G1: r.g.name, G2: g.name, Node: g.node})
				if s.cfg.Trace {
					s.trace = append(s.trace, fmt.Sprintf("map race: %s (%s) then %s (%s)", r.site, r.g.name, site, g.name))
				}
			}
		}
		keep = append(keep, r)
	}
	keep = append(keep, mapRec{g, g.tick, write || own, site})
	s.maps[p] = keep
}

// Last tells which goroutine the scheduler resumed last, and where it stood.
func (s *Sim) Last() GInfo {
	s.mu.Lock()
	defer s.mu.Unlock()
	if s.last == nil {
		return GInfo{}
	}
	return GInfo{Name: s.last.name, Node: s.last.node, Site: s.last.site}
}

// MapRaces returns the unordered conflicting map accesses seen so far.
func (s *Sim) MapRaces() []MapRace {
	s.mu.Lock()
	defer s.mu.Unlock()
	return append([]MapRace(nil), s.races...)
}

// idle advances the simulated clock; it reports whether something became
// runnable.
func (s *Sim) idle() bool {
	d := time.Millisecond
	total := time.Duration(0)
	max := time.Duration(s.cfg.MaxIdleMs) * time.Millisecond
	for total < max {
		time.Sleep(d)
		total += d
		if d < 512*time.Millisecond {
			d *= 2
		}
		synctest.Wait()
		s.mu.Lock()
		any := s.abort
		for _, g := range s.all {
			if g.parked && !g.done {
				any = true
				break
			}
		}
		s.mu.Unlock()
		if any {
			return true
		}
	}
	s.mu.Lock()
	if len(s.waiters) > 0 {
		g := s.waiters[0]
		s.waiters = s.waiters[1:]
		s.stats.Steps++
		s.resumeLocked(g)
		s.mu.Unlock()
		g.resume <- struct{}{}
		return true
	}
	s.mu.Unlock()
	return false
}

// Finish seals the run and returns its statistics.
func (s *Sim) Finish() Stats {
	s.mu.Lock()
	defer s.mu.Unlock()
	s.stats.SimSeconds = time.Since(s.start).Seconds()
	s.stats.Fingerprint = s.fp
	s.stats.EventFP = s.efp
	s.stats.TapeLen = len(s.tape.Data)
	return s.stats
}

// Crashes returns the recorded crashes.
func (s *Sim) Crashes() []Crash {
	s.mu.Lock()
	defer s.mu.Unlock()
	return append([]Crash(nil), s.crashes...)
}

// Alive lists the goroutines that have not finished.
func (s *Sim) Alive() []GInfo {
	s.mu.Lock()
	defer s.mu.Unlock()
	var out []GInfo
	for _, g := range s.all {
		if !g.done {
			out = append(out, GInfo{g.name, g.node, g.site})
		}
	}
	sort.Slice(out, func(i, j int) bool { return out[i].Name < out[j].Name })
	return out
}

// Trace returns the event log (Config.Trace).
func (s *Sim) Trace() []string {
	s.mu.Lock()
	defer s.mu.Unlock()
	return append([]string(nil), s.trace...)
}

// Tape is the list of decisions of a run: recorded from a PRNG or replayed.
type Tape struct {
	Rec  bool
	rng  *rand.Rand
	Data []int32
	pos  int
}

// NewRecordingTape draws decisions from a PRNG and records them.
func NewRecordingTape(seed uint64) *Tape {
	return &Tape{Rec: true, rng: rand.New(rand.NewPCG(seed, 0xda3e39cb94b95bdb))}
}

// NewReplayTape replays recorded decisions; beyond the end every decision is 0.
func NewReplayTape(data []int32) *Tape {
	return &Tape{Data: data}
}

func (t *Tape) draw(n int, gen func(r *rand.Rand) int) int {
	if n <= 1 {
		return 0
	}
	if t.Rec {
		v := gen(t.rng)
		if v < 0 || v >= n {
			v = 0
		}
		t.Data = append(t.Data, int32(v))
		return v
	}
	if t.pos < len(t.Data) {
		v := int(t.Data[t.pos])
		t.pos++
		if v < 0 {
			v = -v
		}
		return v % n
	}
	return 0
}

// Used returns how many entries a replay consumed.
func (t *Tape) Used() int { return t.pos }
