// Package znet replaces "net" in instrumented code: Dial, Listen and Pipe
// return simulated connections while a simulation is active.
package znet

import (
	"errors"
	"net"

	"zzsim"
	"zzsim/simnet"
)

type (
	Conn         = net.Conn
	Listener     = net.Listener
	Addr         = net.Addr
	UnixAddr     = net.UnixAddr
	TCPAddr      = net.TCPAddr
	TCPConn      = net.TCPConn
	IP           = net.IP
	IPNet        = net.IPNet
	Error        = net.Error
	OpError      = net.OpError
	Interface    = net.Interface
	Buffers      = net.Buffers
	Dialer       = net.Dialer
	ListenConfig = net.ListenConfig
)

var ErrClosed = net.ErrClosed

type listener struct{ l *simnet.Listener }

func (l listener) Accept() (net.Conn, error) { return l.l.Accept() }
func (l listener) Close() error              { return l.l.Close() }
func (l listener) Addr() net.Addr            { return l.l.Addr() }

// Dial connects to a simulated listener.
func Dial(network, address string) (Conn, error) {
	if zzsim.Current() == nil {
		return net.Dial(network, address)
	}
	c, err := simnet.Dial(network, address)
	if err != nil {
		return nil, err
	}
	return c, nil
}

// Listen opens a simulated listening socket.
func Listen(network, address string) (Listener, error) {
	if zzsim.Current() == nil {
		return net.Listen(network, address)
	}
	l, err := simnet.Listen(network, address)
	if err != nil {
		return nil, err
	}
	return listener{l}, nil
}

// Pipe returns a simulated synchronous pipe.
func Pipe() (Conn, Conn) {
	if zzsim.Current() == nil {
		return net.Pipe()
	}
	a, b := simnet.Pipe()
	return a, b
}

// UnixConn and UnixListener are types of their own (the real ones cannot be
// built around a simulated connection): what the code under test does with
// them is passing file descriptors (zfd) and accepting.
type UnixConn struct{ *simnet.Conn }

type UnixListener struct{ l *simnet.Listener }

var errNoSim = errors.New("znet: unix sockets of this kind exist in simulation only")

// DialUnix connects to a simulated unix socket.
func DialUnix(network string, laddr, raddr *UnixAddr) (*UnixConn, error) {
	if zzsim.Current() == nil || raddr == nil {
		return nil, errNoSim
	}
	c, err := simnet.Dial("unix", raddr.Name)
	if err != nil {
		return nil, err
	}
	return &UnixConn{c}, nil
}

// ListenUnix opens a simulated unix socket.
func ListenUnix(network string, laddr *UnixAddr) (*UnixListener, error) {
	if zzsim.Current() == nil || laddr == nil {
		return nil, errNoSim
	}
	l, err := simnet.Listen("unix", laddr.Name)
	if err != nil {
		return nil, err
	}
	return &UnixListener{l}, nil
}

func (l *UnixListener) AcceptUnix() (*UnixConn, error) {
	c, err := l.l.Accept()
	if err != nil {
		return nil, err
	}
	return &UnixConn{c.(*simnet.Conn)}, nil
}

func (l *UnixListener) Accept() (net.Conn, error) { return l.l.Accept() }
func (l *UnixListener) Close() error              { return l.l.Close() }
func (l *UnixListener) Addr() net.Addr            { return l.l.Addr() }

func InterfaceAddrs() ([]Addr, error)                 { return net.InterfaceAddrs() }
func Interfaces() ([]Interface, error)                { return net.Interfaces() }
func ParseIP(s string) IP                             { return net.ParseIP(s) }
func SplitHostPort(hp string) (string, string, error) { return net.SplitHostPort(hp) }
func JoinHostPort(host, port string) string           { return net.JoinHostPort(host, port) }
func ResolveTCPAddr(n, a string) (*TCPAddr, error)    { return net.ResolveTCPAddr(n, a) }
func ResolveUnixAddr(n, a string) (*UnixAddr, error)  { return net.ResolveUnixAddr(n, a) }
