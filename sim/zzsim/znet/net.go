// Package znet replaces "net" in instrumented code: Dial, Listen and Pipe
// return simulated connections while a simulation is active.
package znet

import (
	"errors"
	"net"

	"zzsim"
	"zzsim/simnet"
)

type (
	Conn         = net.Conn
	Listener     = net.Listener
	Addr         = net.Addr
	UnixAddr     = net.UnixAddr
	UnixConn     = net.UnixConn
	UnixListener = net.UnixListener
	TCPAddr      = net.TCPAddr
	TCPConn      = net.TCPConn
	IP           = net.IP
	IPNet        = net.IPNet
	Error        = net.Error
	OpError      = net.OpError
	Interface    = net.Interface
	Buffers      = net.Buffers
	Dialer       = net.Dialer
	ListenConfig = net.ListenConfig
)

var ErrClosed = net.ErrClosed

type listener struct{ l *simnet.Listener }

func (l listener) Accept() (net.Conn, error) { return l.l.Accept() }
func (l listener) Close() error              { return l.l.Close() }
func (l listener) Addr() net.Addr            { return l.l.Addr() }

// Dial connects to a simulated listener.
func Dial(network, address string) (Conn, error) {
	if zzsim.Current() == nil {
		return net.Dial(network, address)
	}
	c, err := simnet.Dial(network, address)
	if err != nil {
		return nil, err
	}
	return c, nil
}

// Listen opens a simulated listening socket.
func Listen(network, address string) (Listener, error) {
	if zzsim.Current() == nil {
		return net.Listen(network, address)
	}
	l, err := simnet.Listen(network, address)
	if err != nil {
		return nil, err
	}
	return listener{l}, nil
}

// Pipe returns a simulated synchronous pipe.
func Pipe() (Conn, Conn) {
	if zzsim.Current() == nil {
		return net.Pipe()
	}
	a, b := simnet.Pipe()
	return a, b
}

var errNoFD = errors.New("znet: file descriptor passing is not simulated")

// DialUnix is not simulated (the pipe:// transport passes file descriptors).
func DialUnix(network string, laddr, raddr *UnixAddr) (*UnixConn, error) {
	if zzsim.Current() == nil {
		return net.DialUnix(network, laddr, raddr)
	}
	return nil, errNoFD
}

// ListenUnix is not simulated.
func ListenUnix(network string, laddr *UnixAddr) (*UnixListener, error) {
	if zzsim.Current() == nil {
		return net.ListenUnix(network, laddr)
	}
	return nil, errNoFD
}

func InterfaceAddrs() ([]Addr, error)                 { return net.InterfaceAddrs() }
func Interfaces() ([]Interface, error)                { return net.Interfaces() }
func ParseIP(s string) IP                             { return net.ParseIP(s) }
func SplitHostPort(hp string) (string, string, error) { return net.SplitHostPort(hp) }
func JoinHostPort(host, port string) string           { return net.JoinHostPort(host, port) }
func ResolveTCPAddr(n, a string) (*TCPAddr, error)    { return net.ResolveTCPAddr(n, a) }
func ResolveUnixAddr(n, a string) (*UnixAddr, error)  { return net.ResolveUnixAddr(n, a) }
