#!/bin/bash
# build.sh <repo-tree> <scratch-dir> <out-binary>
# Copies the tree, generates the probe stub with the copy's own generator,
# instruments, and builds the simulation test binary. Exit 2 on any trouble.
set -u
REPO="$1"; S="$2"; OUT="$3"
V="$(cd "$(dirname "$0")/.." && pwd)"
export GOFLAGS=-mod=mod GOPROXY=off GOSUMDB=off GOTOOLCHAIN=local
export PATH=/opt/veriftools/go1.26.8/bin:$PATH
fail() { echo "qsim-build: $*" >&2; exit 2; }
rm -rf "$S" && mkdir -p "$S" || fail "cannot create $S"
rsync -a --exclude .git "$REPO"/ "$S/repo/" || fail "copy failed"
cp -r "$V/sim/zzsim" "$S/zzsim" && cp -r "$V/sim/harness" "$S/harness" || fail "copy failed"
mkdir -p "$S/repo/zzprobe" && cp "$V/sim/probe/probe.qi.idl" "$S/repo/zzprobe/" || fail "copy failed"
cd "$S/repo" || fail "cd"
go run ./meta/cmd/stub --idl zzprobe/probe.qi.idl --output zzprobe/probe_stub_gen.go >"$S/gen.log" 2>&1 || { cat "$S/gen.log" >&2; fail "probe generation failed"; }
[ -s zzprobe/probe_stub_gen.go ] || { cat "$S/gen.log" >&2; fail "probe generation produced nothing"; }
"$V/bin/simrewrite" -maps -sites "$S/sites.txt" -root . -pkgs bus,bus/net,bus/directory,bus/session,bus/services,bus/util,meta/signature,zzprobe,examples/space >"$S/rewrite.log" 2>&1 || { cat "$S/rewrite.log" >&2; fail "instrumentation failed"; }
printf '\nrequire zzsim v0.0.0\n\nreplace zzsim => ../zzsim\n' >> go.mod
cd "$S/harness" || fail "cd"
cp "$S/repo/go.sum" . 2>/dev/null
"$V/bin/simrewrite" -root . -pkgs scen >"$S/rewrite2.log" 2>&1 || { cat "$S/rewrite2.log" >&2; fail "harness instrumentation failed"; }
go test -c -o "$OUT" . >"$S/build.log" 2>&1 || { cat "$S/build.log" >&2; fail "build failed"; }
cp "$S/sites.txt" "$(dirname "$OUT")/sites.txt" || fail "no site list"
tail -1 "$S/rewrite.log"
exit 0
