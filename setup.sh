#!/bin/bash
# Builds the driver and the instrumenter from files on disk only (offline).
set -e
cd "$(dirname "$0")"
export GOFLAGS=-mod=mod GOPROXY=off GOSUMDB=off GOTOOLCHAIN=local
export PATH=/opt/veriftools/go1.26.8/bin:$PATH
mkdir -p bin evidence replays
go build -o bin/simrewrite ./cmd/simrewrite
go build -o bin/qsim ./cmd/qsim
echo "setup: built bin/qsim bin/simrewrite with $(go version)"
