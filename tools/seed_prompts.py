#!/usr/bin/env python3
# tools/seed_prompts.py <round-dir-name> [props...]
# Creates one scratch worktree of /repo per property under /tmp/<round>/<id>
# and writes the brief of a sub-agent that is to break that property to
# /tmp/<round>/prompts/<id>.txt. The brief holds the property text, the
# mechanisms already seeded (from the names under /verif/seeded) and nothing
# else from /verif.
import json, os, subprocess, sys
ROUND = sys.argv[1]
props = {}
for l in open('/verif/properties.jsonl'):
    p = json.loads(l); props[p['id']] = p
claimed = sys.argv[2:] or ["C01","C04","C06","C08","C10","C11","C12","C13","C14","C15","C16","C17","C19"]
prev = {}
for d in sorted(x for x in os.listdir('/verif/seeded') if os.path.isdir('/verif/seeded/' + x)):
    m = json.load(open(f'/verif/seeded/{d}/meta.json'))
    prev.setdefault(m['breaks_property'], []).append(d.split('-', 1)[1].replace('-', ' '))
os.makedirs(f'/tmp/{ROUND}/prompts', exist_ok=True)
for pid in claimed:
    subprocess.run(['git', '-C', '/repo', 'worktree', 'add', '-q', '--detach', f'/tmp/{ROUND}/{pid}', 'HEAD'], check=True)
    p = props[pid]
    anchors = "\n".join(f"  - {m['name']} ({m['where']})" for m in p['anchors']['mechanism'])
    already = "\n".join(f"   * {x}" for x in prev.get(pid, [])) or "   (none)"
    text=f"""You are working in a Go repository (lugu/qiloop, an implementation of the QiMessaging RPC protocol) checked out as a git worktree at /tmp/{ROUND}/{pid}. Work ONLY inside that directory. Do not read or list /verif, /repo, /root/.claude, any other directory under /tmp: your result must be independent of anything there.

Environment: there is no network. Prefix every shell command with:
  export GOFLAGS=-mod=mod GOPROXY=off GOSUMDB=off GOTOOLCHAIN=local
Build: `go build ./...`   Tests: `go test -vet=off -count=1 ./...` (takes ~15 s; examples/clock TestSynchronizedTimestamp and bus/net TestEndPoint_DialTLS (fixed port) may fail once in a while on a loaded machine, with or without your change - ignore those).
Do NOT use `git stash` (shared with other worktrees). To run something without your change: `git diff > /tmp/{ROUND}/{pid}/p.diff; git apply -R /tmp/{ROUND}/{pid}/p.diff; ...; git apply /tmp/{ROUND}/{pid}/p.diff`.

PROPERTY {pid}: {p['title']}
Statement: {p['statement']}
Quantified over: {p['quantifier']['text']}
Why the existing tests cannot settle it: {p['why_tests_cant']}
Code that is meant to make it hold:
{anchors}
Files: {', '.join(p['anchors']['files'])}

TASK: devise ONE realistic change to the non-test source of the repository that BREAKS this property - the kind of bug a developer could plausibly introduce (a refactoring slip, a missed or misplaced lock, a wrong condition, an off-by-one, reordered statements, a dropped error check, a changed constant, an "optimisation", a half-finished feature) - such that:
 1. the repository still compiles (`go build ./...`);
 2. the existing test suite still passes, unedited (`go test -vet=off -count=1 ./...`; run it twice);
 3. the breakage needs something SPECIFIC to manifest - a particular interleaving, a crash or fault at a particular point, a multi-step sequence of operations, an unusual input, or two cooperating sites that each look fine alone. It must NOT be something ordinary use exposes at once. Prefer subtle: the rarer the trigger (while still demonstrable), the better.
These changes were already seeded for this property by other people; yours must be DIFFERENT from all of them (another mechanism, preferably another function or file, breaking if possible another clause of the property):
{already}
Keep the change small (roughly 1-20 lines), in non-generated source if possible (if you change a code generator, regenerate the checked-in generated files it affects).

Provide a DEMONSTRATION: a Go test file (or a small program) added inside the worktree that FAILS with your change and PASSES without it. Verify both directions yourself. For concurrency bugs the demo may force the interleaving with hooks, loops, sleeps or a custom net.Stream / io.Reader; it should fail reliably (at least 9 of 10 runs) with the change.

DELIVERABLES, in /tmp/{ROUND}/{pid}/SEED/ :
 - patch.diff : `git diff` of the source change ONLY (not the demo, not SEED/);
 - the demo file(s) (a copy, with a .txt suffix so that `go test ./...` does not pick it up), with a note of where in the tree it must be placed to run and the exact `go test` command;
 - NOTES.md : which clause of the property the change breaks, what is needed for it to manifest, and the exact commands you ran with their results (build, test suite twice, demo with and without the change).
Do not commit anything. Do not edit existing test files. Do not leave the demo file in the tree (only under SEED/). When done, reply with a short summary (what you changed, how it manifests, demo destination path and command)."""
    open(f'/tmp/{ROUND}/prompts/{pid}.txt', 'w').write(text)
print("ok")
