#!/bin/bash
# tools/seed_verify.sh <id> <demo-src> <demo-dst-rel> <go test args...>
# Confirms a seeded change in a scratch worktree of /repo: applies, builds,
# suite passes, demo fails with it and passes without it. Removes the worktree.
set -u
ID="$1"; DEMO="$2"; DST="$3"; shift 3
export GOFLAGS=-mod=mod GOPROXY=off GOSUMDB=off GOTOOLCHAIN=local
W=/tmp/sv-$ID
git -C /repo worktree remove --force $W 2>/dev/null
git -C /repo worktree add -q --detach $W ${BASE:-HEAD} || exit 3
trap 'git -C /repo worktree remove --force '$W EXIT
cd $W
git apply ${SEEDROOT:-/tmp/seed}/$ID/SEED/patch.diff || { echo "PATCH DOES NOT APPLY"; exit 3; }
go build ./... || { echo "BUILD FAILS"; exit 3; }
go test -vet=off -count=1 ./... 2>&1 | grep -v "no test files" | grep -v "^ok" ; echo "suite exit: ${PIPESTATUS[0]}"
cp "$DEMO" "$DST"
echo "--- demo WITH the change (expect FAIL)"
go test -vet=off -count=1 "$@" 2>&1 | tail -5
git stash -q -- $(git diff --name-only)
echo "--- demo WITHOUT the change (expect ok)"
go test -vet=off -count=1 "$@" 2>&1 | tail -3
