#!/usr/bin/env python3
# tools/seed_store.py <name> <property> <src-seed-dir> <demo-file> <demo-dst> "<needs>" "<ran>" "<caught-by>"
import sys, os, shutil, json
name, prop, src, demo, dst, needs, ran, caught = sys.argv[1:9]
d = f"/verif/seeded/{name}"
os.makedirs(d, exist_ok=True)
shutil.copy(os.path.join(src, "patch.diff"), os.path.join(d, "patch.diff"))
shutil.copy(os.path.join(src, demo), os.path.join(d, os.path.basename(demo) if demo.endswith('.txt') else os.path.basename(demo) + ".txt"))
if os.path.exists(os.path.join(src, "NOTES.md")):
    shutil.copy(os.path.join(src, "NOTES.md"), os.path.join(d, "NOTES.md"))
meta = {"breaks_property": prop, "demo_file": os.path.basename(demo), "demo_goes_to": dst, "needs_to_manifest": needs,
        "confirmed_by": ran, "caught_by": caught, "origin": "sub-agent that saw only the property text and its own worktree"}
json.dump(meta, open(os.path.join(d, "meta.json"), "w"), indent=1)
print("stored", d)
