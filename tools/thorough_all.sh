#!/bin/bash
# Runs the thorough tier of every claimed check, one after the other.
# usage: tools/thorough_all.sh [seed] [props...]
cd "$(dirname "$0")/.."
SEED="${1:-1}"; shift
PROPS="${@:-C01 C04 C06 C08 C10 C11 C12 C13 C14 C15 C16 C17 C19}"
[ -x bin/qsim ] || ./setup.sh
rc=0
for p in $PROPS; do
  echo "=== $p thorough seed=$SEED $(date +%T)"
  VERIF_SEED=$SEED ./bin/qsim check $p --tier thorough 2>&1 | grep -E "^qsim|VIOLATION|KNOWN-FINDING|TROUBLE|class=" | cut -c1-300
  r=${PIPESTATUS[0]}; echo "=== $p exit $r"; [ $r -ne 0 ] && rc=1
done
exit $rc
