#!/bin/bash
# tools/regress.sh [parallelism]: runs the quick check of its property against
# every stored seeded change (scratch copy of /repo + patch, tools/mutant.sh)
# and writes one line per change to seeded/REGRESSION.txt:
#   <name> <property> exit=<1 caught | 0 missed | 3 patch does not apply any more> <classes>
cd "$(dirname "$0")/.."
P=${1:-2}
OUT=seeded/REGRESSION.txt
TMP=$(mktemp -d /tmp/regress-XXXXXX)
one() {
  d="$1"; name=$(basename "$d"); prop=$(python3 -c "import json,re;d=json.load(open('$d/meta.json'));print(d.get('check_with') or re.split('[ ,]',d['breaks_property'])[0])")
  note=$(python3 -c "import json;d=json.load(open('$d/meta.json'));print('(no longer breaks the property on HEAD, see meta.json)' if d.get('still_breaks_property_on_head') is False else '')")
  log="$TMP/$name.log"
  tools/mutant.sh "$d/patch.diff" "$prop" > "$log" 2>&1; rc=$?
  cls=$(grep "class=" "$log" | grep -v "^KNOWN" | sed 's/.*class=//; s/ run=.*//' | sort -u | head -4 | tr '\n' ' ')
  echo "$name $prop exit=$rc $cls$note"
}
export -f one; export TMP
ls -d seeded/*/ | sed 's|/$||' | xargs -P "$P" -I{} bash -c 'one {}' | sort > "$OUT.new"
mv "$OUT.new" "$OUT"
rm -rf "$TMP"
echo "regress: $(grep -c 'exit=1' $OUT) caught, $(grep -c 'exit=0' $OUT) missed, $(grep -c 'exit=3' $OUT) do not apply"
