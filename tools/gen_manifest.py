#!/usr/bin/env python3
# Regenerates /verif/MANIFEST.json from the table below (kept in one place so
# that claims, levels and the not_applicable list stay consistent).
import json
TECH = "deterministic simulation with fault injection: seeded goroutine scheduler + simulated network over the instrumented real code, replayable decision tape"
TECH_STREAM = "deterministic simulation with fault injection at the I/O seam: scripted byte stream (seeded fragmentation, stream end placed at every cut position, four end-of-stream manifestations) against real encoders/decoders"
NOTE = "Trusted base: the simulated transport contract (reliable ordered bytes, per-call-atomic writes, back-pressure, close/reset), the channel-based mutex shim, testing/synctest quiescence detection, the harness's own reference codec and oracles. Explores sequentially consistent interleavings at statement granularity only; sampling, not proof."
claimed = {
 "C01": ("exploration", "Real Message.Write/Read over a scripted stream with seeded fragmentation, EOF-with-data and back-to-back sequences, compared byte for byte with an independent reference codec written from the protocol document; refusal cases must not consume payload bytes.", "4/C01", TECH_STREAM),
 "C04": ("exploration", "Seeded search over schedules of the full client/server stack (K callers x C connections x objects, raw-frame peer sending every message type), with callee-side execution log and per-call unique tokens; each reply is attributed to exactly one execution.", "4/C04", TECH),
 "C06": ("exploration", "Simulated server with four authenticators (dictionary, yes, no, predicate), one or two hostile raw-frame connections (every message type, every target, forged/duplicate/wrongly-typed/truncated/oversized capability maps, traffic racing a valid authenticate) and an honest client; per-connection lenient model of 'has sent accepted credentials'; probe-service execution log for safety, error answer + end of stream for liveness.", "4/C06", TECH),
 "C08": ("fault_enumeration", "Peer dies mid-encoding: for each sampled valid encoding (8 kinds of decoder), EVERY cut position x 4 end-of-stream manifestations x 2 fragmentations must be refused. Exhaustive over cut positions per encoding; encodings are sampled.", "4/C08", TECH_STREAM),
 "C10": ("exploration", "N concurrent senders on one endpoint over the simulated connection (per-call-atomic writes, arbitrary interleaving between calls, arbitrary read fragmentation and window sizes); wire tap parsed by the reference codec + per-handler subsequence oracle.", "4/C10", TECH),
 "C11": ("fault_enumeration", "Call / concurrent calls / subscribe scenarios over the real client and server; runs are grouped in blocks sharing scenario, configuration and decision stream, and inside a block a fault (reset, close by either side, partial write then error, node crash) is placed at EVERY I/O operation index of the client connection; liveness = every call returned at quiescence, later calls fail, subscription channels closed, disconnect callbacks registered before the fault ran exactly once.", "4/C11", TECH),
 "C12": ("exploration", "Hostile authenticated raw-frame client (grammar over the generic object and directory actions, mutation of valid frames at every 32-bit field, floods, stall, graceful and mid-frame disconnect) against a full directory server + probe service, followed by a fresh client that must be answered by every object within bounded simulated time; server crashes, deadlocks and fatal runtime errors (worker under an address-space limit) are violations; three sub-batches (no-stall, stall, mutation).", "4/C12", TECH),
 "C13": ("exploration", "Subscribe / cancel / re-subscribe / emit histories by several subscribers (shared and own connections and proxies) and one emitter under seeded schedules; per-subscription oracle bounded by acknowledgement and cancel request (no miss, no duplicate, order, no foreign signal, channel closed) plus a wire tap for 'no event after the unregister acknowledgement'; violation classes name their cause, three of them are known findings.", "4/C13", TECH),
 "C14": ("exploration", "Concurrent get / set (valid, rejected, wrongly typed, by name and by id) / service-side update histories by several clients; porcupine linearizability against a typed-register model, declared-type check on raw reads, exactly-one-event-per-accepted-write accounting per subscriber.", "4/C14", TECH),
 "C15": ("exploration", "Two or three remote directory clients (register, ready, unregister, update, lookup, list over a universe of three names) plus the hosting process calling Server.NewService / Service.Terminate, under statement-granularity preemption raised in bus/directory and bus/server; porcupine linearizability against a sequential registry model that validates observed outcomes (ids strictly increasing, names unique, visibility from ready to unregister, updates cannot rename); event ledger taken from the subscriber's connection; a sequential-conformance sub-batch.", "4/C15", TECH),
 "C16": ("exploration", "Add / remove / remote terminate / call histories on one service with concurrent actors; reference model of live objects: identifier uniqueness, termination hook exactly once, subscribers told, calls invoked after a removal returned are refused without reaching the object, live objects keep answering.", "4/C16", TECH),
 "C19": ("exploration", "One session shared by 2-6 goroutines requesting proxies and objects of services behind the directory's endpoint and one or two further servers (real session, directory, services.NewServer stack over the simulated network), statement-granularity preemption raised in bus/session; crash capture including mutex-misuse fatals, working-proxy check, open connections of the session per endpoint counted on the simulated network.", "4/C19", TECH),
 "C17": ("exploration", "MakeHandler / RemoveHandler / self-removing filters / traffic / Close / peer close raced on one real endpoint under statement-granularity preemption; harness-owned closers and queues count closes; captured panics and pending operations at quiescence are violations.", "4/C17", TECH),
}
na_pure = {
 "C02": "pure function of its input (value -> bytes -> value): no schedule, clock, fault or interleaving in the statement; decided by property-based testing, not simulation",
 "C03": "pure function of (signature, value): three codecs agree; no schedule, fault or interleaving to simulate",
 "C05": "quantified over IDL programs and values: generate-compile-run differential testing, not simulation (the simulator does compile and run the tree's generator output for one probe IDL, but a failure there is a build error)",
 "C07": "arbitrary bytes into pure decoders/parsers: fuzzing with resource accounting, not simulation (the slice reachable from the wire is exercised inside C12)",
 "C09": "pure function (parse/print of signature strings)",
 "C18": "pure function (MetaObject -> IDL text -> MetaObject) and parser totality on text",
 "C20": "pure function (structural conversion of Go values)",
}
allp = ["C%02d" % i for i in range(1, 21)]
pending = [p for p in allp if p not in claimed and p not in na_pure]
checks = []
for pid in sorted(claimed):
    lvl, text, ref, tech = claimed[pid]
    checks.append({
      "property_id": pid,
      "quick_cmd": f"./bin/qsim check {pid} --tier quick",
      "thorough_cmd": f"./bin/qsim check {pid} --tier thorough",
      "evidence_file": f"/verif/evidence/{pid}.json",
      "replay_cmd_template": "./bin/qsim replay {path}",
      "engine": "qsim",
      "level_claimed": {"category": lvl, "text": text, "design_ref": "DESIGN.md section " + ref},
      "level_note": NOTE,
      "technique": tech,
    })
m = {
 "version": 1,
 "setup_cmd": "./setup.sh",
 "hooks": {
   "guard": "none in /repo: every seam is an existing interface or is created by AST-rewriting a scratch copy of the tree (shim packages zzsim/*); nothing to switch off",
   "enable": "sim/build.sh copies /repo's working tree to a temp dir, generates the probe stub with the copy's own generator, instruments it with bin/simrewrite and builds one test binary with go1.26.8 (cached under /verif/.cache/<tree hash>)",
   "baseline_off_cmd": "cd /repo && go test -vet=off -count=1 ./...",
   "source_commits": [],
   "add_only": True,
 },
 "engines": [{"name": "qsim", "path": "/verif/bin/qsim", "serves_properties": sorted(claimed), "kind_free_text": "deterministic simulator: go/ast instrumenter + seeded goroutine scheduler inside testing/synctest + simulated network with fault injection + replay/minimisation"}],
 "checks": checks,
 "notes": "Exit 0 held / 1 VIOLATION (reproduced in a fresh process) / 2 build or harness trouble. Genuine defects repaired in /repo by fix: commits are listed in KNOWN_FINDINGS.txt.",
 "not_applicable": [{"property_id": k, "reason": v} for k, v in sorted(na_pure.items())] +
   [{"property_id": p, "reason": "not claimed yet: the simulation scenario for this property is still being built (design in DESIGN.md section 4)"} for p in pending],
}
json.dump(m, open("/verif/MANIFEST.json", "w"), indent=1)
print("claimed:", sorted(claimed), "pending:", pending)
