#!/bin/bash
# tools/mutant.sh <patch> <property> [extra qsim args]: run a check against a
# scratch copy of /repo with the patch applied. Evidence/replays of the run go
# to a temp dir. Prints the check's output and exit status; cleans up.
set -u
PATCH="$(readlink -f "$1")"; PROP="$2"; shift 2
V="$(cd "$(dirname "$0")/.." && pwd)"
S="$(mktemp -d /tmp/qsim-mut-XXXXXX)"
trap 'rm -rf "$S"' EXIT
rsync -a --exclude .git /repo/ "$S/repo/"
( cd "$S/repo" && patch -p1 --quiet < "$PATCH" ) || { echo "mutant: patch does not apply"; exit 3; }
QSIM_REPO="$S/repo" QSIM_OUT="$S/out" "$V/bin/qsim" check "$PROP" "$@"
rc=$?
echo "mutant: $(basename "$PATCH") on $PROP -> exit $rc"
exit $rc
