// qsim is the driver of the deterministic simulation checks (DESIGN.md
// section 8): it rebuilds the simulation binary from /repo's working tree
// (cached by content hash), fans runs out to worker processes, confirms every
// reported violation by replaying its file in a fresh process, writes the
// evidence file and sets the exit status:
//
//	0  the property held on everything explored (KNOWN-FINDING lines possible)
//	1  VIOLATION property=<id> replay=<path> (reproduced in a fresh process)
//	2  build, instrumentation, determinism or watchdog trouble
package main

import (
	"bufio"
	"bytes"
	"crypto/sha256"
	"encoding/hex"
	"encoding/json"
	"flag"
	"fmt"
	"io"
	"os"
	"os/exec"
	"path/filepath"
	"runtime"
	"sort"
	"strconv"
	"strings"
	"sync"
	"syscall"
	"time"
)

var (
	verifDir = "/verif"
	repoDir  = "/repo"
)

func main() {
	if v := os.Getenv("QSIM_VERIF"); v != "" {
		verifDir = v
	} else if exe, err := os.Executable(); err == nil {
		// bin/qsim lives in <verif>/bin
		d := filepath.Dir(filepath.Dir(exe))
		if _, err := os.Stat(filepath.Join(d, "sim", "build.sh")); err == nil {
			verifDir = d
		}
	}
	if v := os.Getenv("QSIM_REPO"); v != "" {
		repoDir = v
	}
	if len(os.Args) < 2 {
		usage()
	}
	switch os.Args[1] {
	case "check":
		code := cmdCheck(os.Args[2:])
		unpin()
		os.Exit(code)
	case "replay":
		code := cmdReplay(os.Args[2:])
		unpin()
		os.Exit(code)
	case "build":
		_, err := ensureBinary()
		if err != nil {
			fmt.Fprintln(os.Stderr, err)
			os.Exit(2)
		}
		unpin()
	case "selftest":
		code := cmdSelftest(os.Args[2:])
		unpin()
		os.Exit(code)
	default:
		usage()
	}
}

// outDir is where evidence and replay files go: /verif, unless the check is
// pointed at another tree (sensitivity runs against mutants must not
// overwrite the evidence of the real tree).
func outDir() string {
	if v := os.Getenv("QSIM_OUT"); v != "" {
		return v
	}
	return verifDir
}

func usage() {
	fmt.Fprintln(os.Stderr, "usage: qsim check <property> [--tier quick|thorough] | replay <file> [--trace] | build | selftest determinism [props...]")
	os.Exit(2)
}

// ---------------------------------------------------------------------------
// build cache

func hashTree(h io.Writer, root string, keep func(rel string, d os.DirEntry) bool) error {
	var files []string
	err := filepath.WalkDir(root, func(p string, d os.DirEntry, err error) error {
		if err != nil {
			return err
		}
		rel, _ := filepath.Rel(root, p)
		if d.IsDir() {
			if d.Name() == ".git" {
				return filepath.SkipDir
			}
			return nil
		}
		if keep(rel, d) {
			files = append(files, rel)
		}
		return nil
	})
	if err != nil {
		return err
	}
	sort.Strings(files)
	for _, f := range files {
		data, err := os.ReadFile(filepath.Join(root, f))
		if err != nil {
			return err
		}
		fmt.Fprintf(h, "%s %d\n", f, len(data))
		h.Write(data)
	}
	return nil
}

func treeHash() (string, error) {
	h := sha256.New()
	err := hashTree(h, repoDir, func(rel string, d os.DirEntry) bool {
		n := d.Name()
		return strings.HasSuffix(n, ".go") || strings.HasSuffix(n, ".idl") || n == "go.mod" || n == "go.sum"
	})
	if err != nil {
		return "", err
	}
	fmt.Fprintln(h, "---sim---")
	err = hashTree(h, filepath.Join(verifDir, "sim"), func(rel string, d os.DirEntry) bool { return true })
	if err != nil {
		return "", err
	}
	rw, err := os.ReadFile(filepath.Join(verifDir, "bin", "simrewrite"))
	if err != nil {
		return "", fmt.Errorf("bin/simrewrite missing (run ./setup.sh): %v", err)
	}
	h.Write(rw)
	return hex.EncodeToString(h.Sum(nil))[:24], nil
}

// ensureBinary returns the path of the simulation binary for the current
// working tree of the repository, building it if needed.
func ensureBinary() (string, error) {
	if pinned != "" {
		return pinned, nil
	}
	bin, err := ensureCached()
	if err != nil {
		return "", err
	}
	// The cache keeps a few trees only and other qsim processes (checks of
	// other trees) evict entries: this process works on a hard link of its
	// own, which outlives the eviction, and reads the site list now.
	siteList, _ = os.ReadFile(filepath.Join(filepath.Dir(bin), "sites.txt"))
	cache := filepath.Dir(filepath.Dir(bin))
	sweepPins(cache)
	link := filepath.Join(cache, fmt.Sprintf("inuse-%d.bin", os.Getpid()))
	os.Remove(link)
	if err := os.Link(bin, link); err != nil {
		data, err2 := os.ReadFile(bin)
		if err2 != nil {
			return "", err2
		}
		if err2 := os.WriteFile(link, data, 0755); err2 != nil {
			return "", err2
		}
	}
	pinned = link
	return pinned, nil
}

var (
	pinned   string
	siteList []byte
)

// unpin removes this process's link to the simulation binary.
func unpin() {
	if pinned != "" {
		os.Remove(pinned)
		pinned = ""
	}
}

// sweepPins removes the links left by processes that no longer exist.
func sweepPins(cache string) {
	ents, _ := os.ReadDir(cache)
	for _, e := range ents {
		var pid int
		if n, _ := fmt.Sscanf(e.Name(), "inuse-%d.bin", &pid); n == 1 && pid != os.Getpid() {
			if err := syscall.Kill(pid, 0); err == syscall.ESRCH {
				os.Remove(filepath.Join(cache, e.Name()))
			}
		}
	}
}

func ensureCached() (string, error) {
	hash, err := treeHash()
	if err != nil {
		return "", fmt.Errorf("qsim: hashing the tree: %v", err)
	}
	cache := filepath.Join(verifDir, ".cache")
	os.MkdirAll(cache, 0755)
	lock, err := os.OpenFile(filepath.Join(cache, "lock"), os.O_CREATE|os.O_RDWR, 0644)
	if err != nil {
		return "", err
	}
	defer lock.Close()
	if err := syscall.Flock(int(lock.Fd()), syscall.LOCK_EX); err != nil {
		return "", err
	}
	defer syscall.Flock(int(lock.Fd()), syscall.LOCK_UN)
	dir := filepath.Join(cache, hash)
	bin := filepath.Join(dir, "simtest.bin")
	if _, err := os.Stat(bin); err == nil {
		now := time.Now()
		os.Chtimes(dir, now, now)
		return bin, nil
	}
	scratch, err := os.MkdirTemp("", "qsim-build-")
	if err != nil {
		return "", err
	}
	defer os.RemoveAll(scratch)
	start := time.Now()
	tmpBin := filepath.Join(scratch, "simtest.bin")
	cmd := exec.Command(filepath.Join(verifDir, "sim", "build.sh"), repoDir, filepath.Join(scratch, "w"), tmpBin)
	var outb bytes.Buffer
	cmd.Stdout = &outb
	cmd.Stderr = &outb
	if err := cmd.Run(); err != nil {
		return "", fmt.Errorf("qsim: building the simulation binary failed (%v):\n%s", err, outb.String())
	}
	os.MkdirAll(dir, 0755)
	data, err := os.ReadFile(tmpBin)
	if err != nil {
		return "", err
	}
	if err := os.WriteFile(bin+".tmp", data, 0755); err != nil {
		return "", err
	}
	if err := os.Rename(bin+".tmp", bin); err != nil {
		return "", err
	}
	if sites, err := os.ReadFile(filepath.Join(scratch, "sites.txt")); err == nil {
		os.WriteFile(filepath.Join(dir, "sites.txt"), sites, 0644)
	}
	fmt.Fprintf(os.Stderr, "qsim: built simulation binary for tree %s in %.1fs (%s)\n", hash, time.Since(start).Seconds(), strings.TrimSpace(outb.String()))
	// keep the three most recent entries
	ents, _ := os.ReadDir(cache)
	type ent struct {
		name string
		mod  time.Time
	}
	var dirs []ent
	for _, e := range ents {
		if e.IsDir() {
			if fi, err := e.Info(); err == nil {
				dirs = append(dirs, ent{e.Name(), fi.ModTime()})
			}
		}
	}
	sort.Slice(dirs, func(i, j int) bool { return dirs[i].mod.After(dirs[j].mod) })
	for i, d := range dirs {
		if i >= 3 {
			os.RemoveAll(filepath.Join(cache, d.name))
		}
	}
	return bin, nil
}

// ---------------------------------------------------------------------------
// known findings

type finding struct {
	prop, class, text string
}

func loadFindings() ([]finding, error) {
	data, err := os.ReadFile(filepath.Join(verifDir, "KNOWN_FINDINGS.txt"))
	if os.IsNotExist(err) {
		return nil, nil
	}
	if err != nil {
		return nil, err
	}
	var fs []finding
	for _, line := range strings.Split(string(data), "\n") {
		line = strings.TrimSpace(line)
		if !strings.HasPrefix(line, "finding:") {
			continue // comments and "fixed:" lines suppress nothing
		}
		rest := strings.TrimSpace(strings.TrimPrefix(line, "finding:"))
		var f finding
		for _, tok := range strings.SplitN(rest, " ", 3) {
			switch {
			case strings.HasPrefix(tok, "property="):
				f.prop = strings.TrimPrefix(tok, "property=")
			case strings.HasPrefix(tok, "class="):
				f.class = strings.TrimPrefix(tok, "class=")
			default:
				f.text = tok
			}
		}
		if f.prop != "" && f.class != "" {
			fs = append(fs, f)
		}
	}
	return fs, nil
}

// ---------------------------------------------------------------------------
// worker protocol (mirrors sim/harness/worker_test.go)

type job struct {
	Mode       string   `json:"mode"`
	Prop       string   `json:"prop"`
	Tier       string   `json:"tier"`
	Seed       uint64   `json:"seed"`
	Worker     int      `json:"worker"`
	Workers    int      `json:"workers"`
	Runs       int      `json:"runs"`
	From       int      `json:"from"`
	MaxSeconds float64  `json:"max_seconds"`
	ReplayDir  string   `json:"replay_dir"`
	Known      []string `json:"known"`
	File       string   `json:"file"`
	Trace      bool     `json:"trace"`
	MaxViol    int      `json:"max_violations"`
	NoMinimize bool     `json:"no_minimize"`
}

type violationReport struct {
	Class    string `json:"class"`
	Detail   string `json:"detail"`
	Run      int    `json:"run"`
	File     string `json:"file"`
	Tries    int    `json:"minimize_tries"`
	OpsFrom  int    `json:"ops_before"`
	OpsTo    int    `json:"ops_after"`
	TapeFrom int    `json:"tape_before"`
	TapeTo   int    `json:"tape_after"`
}

type summary struct {
	Evaluations  int               `json:"evaluations"`
	Runs         int               `json:"runs"`
	Nontrivial   int               `json:"nontrivial"`
	Fingerprints []uint64          `json:"fingerprints"`
	EventFPs     []uint64          `json:"event_fps"`
	Steps        int64             `json:"steps"`
	Switches     int64             `json:"switches"`
	Yields       int64             `json:"yields"`
	Preempts     int64             `json:"preempts"`
	MapOrders    int64             `json:"map_orders"`
	SimSeconds   float64           `json:"sim_seconds"`
	OpsDone      int               `json:"ops_done"`
	Fired        map[string]int    `json:"fired"`
	Configured   map[string]int    `json:"configured"`
	Probes       map[string]int    `json:"probes"`
	Inconclusive int               `json:"inconclusive"`
	InconReasons map[string]int    `json:"inconclusive_reasons"`
	Known        map[string]int    `json:"known"`
	KnownDetail  map[string]string `json:"known_detail"`
	Violations   []violationReport `json:"violations"`
	Samples      []json.RawMessage `json:"samples"`
	WallSeconds  float64           `json:"wall_seconds"`
	Stopped      string            `json:"stopped"`
	Batches      map[string]int    `json:"batches"`
	Sites        map[string]int    `json:"sites"`
}

type workerResult struct {
	sum       *summary
	lastBegin int
	harnessEr string
	exitErr   error
	output    string
	timedOut  bool
	got       bool
}

func runWorker(bin string, j job, timeout time.Duration, memLimitKB int64) workerResult {
	res := workerResult{lastBegin: -1}
	dir, err := os.MkdirTemp("", "qsim-job-")
	if err != nil {
		res.exitErr = err
		return res
	}
	defer os.RemoveAll(dir)
	jf := filepath.Join(dir, "job.json")
	b, _ := json.Marshal(j)
	os.WriteFile(jf, b, 0644)
	shell := fmt.Sprintf("ulimit -v %d 2>/dev/null; exec %q -test.run '^TestWorker$' -test.timeout 0 -test.count 1", memLimitKB, bin)
	cmd := exec.Command("/bin/bash", "-c", shell)
	cmd.Env = append(os.Environ(), "QSIM_JOB="+jf, "GOMAXPROCS="+gomaxprocs(), "GOTRACEBACK=single", "GOMEMLIMIT=2GiB")
	cmd.Dir = dir
	cmd.SysProcAttr = &syscall.SysProcAttr{Setpgid: true}
	stdout, _ := cmd.StdoutPipe()
	var stderr bytes.Buffer
	cmd.Stderr = &stderr
	if err := cmd.Start(); err != nil {
		res.exitErr = err
		return res
	}
	timer := time.AfterFunc(timeout, func() {
		res.timedOut = true
		syscall.Kill(-cmd.Process.Pid, syscall.SIGKILL)
	})
	defer timer.Stop()
	var tail []string
	sc := bufio.NewScanner(stdout)
	sc.Buffer(make([]byte, 1<<20), 256<<20)
	for sc.Scan() {
		line := sc.Text()
		if j.Trace || j.Mode == "digest" {
			if strings.HasPrefix(line, "TRACE ") || strings.HasPrefix(line, "DIGEST") {
				fmt.Println(line)
				continue
			}
		}
		if !strings.HasPrefix(line, "QSIM ") {
			if len(tail) < 50 {
				tail = append(tail, line)
			}
			continue
		}
		rest := line[5:]
		kind, payload, _ := strings.Cut(rest, " ")
		switch kind {
		case "begin":
			var m map[string]int
			json.Unmarshal([]byte(payload), &m)
			res.lastBegin = m["run"]
		case "summary":
			var s summary
			if err := json.Unmarshal([]byte(payload), &s); err == nil {
				res.sum = &s
			}
		case "harness-error":
			res.harnessEr = payload
		case "error":
			res.harnessEr = payload
		case "replay", "one":
			res.output = payload
			res.got = true
		case "violation":
		}
	}
	res.exitErr = cmd.Wait()
	if res.exitErr != nil || res.sum == nil {
		res.output += strings.Join(tail, "\n") + "\n" + firstBytes(stderr.String(), 6000) + "\n...\n" + lastBytes(stderr.String(), 2000)
	}
	return res
}

func firstBytes(s string, n int) string {
	if len(s) > n {
		return s[:n]
	}
	return s
}

func lastBytes(s string, n int) string {
	if len(s) > n {
		return "..." + s[len(s)-n:]
	}
	return s
}

func gomaxprocs() string {
	if v := os.Getenv("QSIM_GOMAXPROCS"); v != "" {
		return v
	}
	return "2"
}

// ---------------------------------------------------------------------------
// tiers

type tierSpec struct {
	runs    int     // total simulated runs
	chunk   int     // runs per worker process (workers are recycled per chunk)
	seconds float64 // wall-clock budget of the whole batch
}

var tiers = map[string]map[string]tierSpec{
	// {runs, runs per worker process, wall-clock budget in seconds}
	"quick": {
		"default": {20000, 1000, 150},
		"C01":     {240000, 15000, 150},
		"C04":     {32000, 1000, 150},
		"C06":     {48000, 1500, 150},
		"C08":     {2400, 75, 150},
		"C10":     {32000, 1000, 150},
		"C11":     {64000, 640, 150},
		"C12":     {24000, 250, 150},
		"C13":     {40000, 1250, 150},
		"C14":     {32000, 1000, 150},
		"C15":     {32000, 1000, 150},
		"C16":     {32000, 1000, 150},
		"C17":     {256000, 8000, 150},
		"C19":     {24000, 750, 150},
	},
	"thorough": {
		"default": {600000, 1000, 1500},
		"C01":     {12000000, 25000, 1500},
		"C04":     {1600000, 1000, 1500},
		"C06":     {2400000, 1500, 1500},
		"C08":     {120000, 75, 1500},
		"C10":     {1600000, 1000, 1500},
		"C11":     {3200000, 640, 1500},
		"C12":     {1200000, 250, 1500},
		"C13":     {2000000, 1250, 1500},
		"C14":     {1600000, 1000, 1500},
		"C15":     {1600000, 1000, 1500},
		"C16":     {1600000, 1000, 1500},
		"C17":     {12800000, 8000, 1500},
		"C19":     {1200000, 750, 1500},
	},
}

func specFor(prop, tier string) tierSpec {
	t := tiers[tier]
	if s, ok := t[prop]; ok {
		return s
	}
	return t["default"]
}

type propInfo struct {
	level      string
	rule       string
	assume     []string
	components map[string][]string
}

var stubsCommon = []string{
	"transports (tcp, tls, unix, net.Pipe, fd-passing pipe): one simulated reliable ordered byte stream with per-call-atomic writes, back-pressure, seeded read fragmentation, close/reset semantics",
	"sync.Mutex/RWMutex/WaitGroup: channel based re-implementation with the same blocking and misuse semantics, known to the scheduler",
	"math/rand: run-seeded PRNG", "clock: testing/synctest fake clock",
	"service implementations and authenticators: harness code",
}

var props = map[string]propInfo{
	"C01": {level: "exploration",
		rule:   "one case = a sequence of 1-6 messages (edge-biased header fields, all eight types, payload sizes from 0 to exactly the size limit, sizes beyond 64 KiB anywhere in the sequence) optionally followed by a header that must be refused (wrong magic/version/type, over-limit size), written with the real Message.Write - to a recording stream, to a stream that takes a few bytes per write, or all at once from as many goroutines onto slow streams of their own (scheduling decisions between the two instalments of each write) - and read back with the real Message.Read, into fresh or one reused Message value, over a scripted stream whose fragmentation (greedy / byte-at-a-time / random) and end (EOF alone or together with the last bytes) are drawn per case. Non-trivial: at least two messages or a read path fragmented into more reads than two per message; distinct = distinct (wire bytes, fragmentation mode, end mode) hashes",
		assume: []string{"readers and writers obey the io.Reader/io.Writer contracts", "the reference codec (harness) states the documented layout correctly"}},
	"C11": {level: "fault_enumeration",
		rule:   "runs are grouped in blocks of 640 that share scenario (one call / three concurrent calls with a slow callee / subscribe + two events + call / one call under early-reply schedules), scheduler and network configuration and the decision stream; inside a block the fault is placed at I/O operation k of the client connection for EVERY k in 0..126 x {reset, close by the peer, close by the local side, partial write then error, crash of the peer's node}, plus fault-free runs; planned positions beyond the end of the execution never fire (probe plan-not-reached) and count as trivial. Every tenth block of each residue is of another kind: the application closes the endpoint itself after 0..159 scheduling decisions (blocks 4 mod 5; in the blocks 14 mod 20 the client is one the server made itself - Server.Client, an in-process connection - and what happens at that moment is the termination of the server); the incoming stream ends, by EOF or reset, after exactly N = 0..319 more bytes counted from the start of the scenario body (blocks 3 mod 10: every byte position of the replies and events); a subscriber does not read while 90..130 events arrive, a call is made, then the connection is lost (5 mod 10); the server stops reading, the sends block in mid-message, then local close / reset / peer close (7 mod 10). A Reply read completely before the Write that carried its call returned must reach its caller whatever follows. Non-trivial = the fault fired or the run is the block's fault-free run; distinct = distinct (block, fault position, resulting schedule fingerprint)",
		assume: []string{"sequentially consistent interleavings at statement granularity", "the simulated transport contract (DESIGN.md 3.4, 9.1) incl. TCP-like late writes matches the real transports", "exhaustive over fault positions of each sampled block only"}},
	"C08": {level: "fault_enumeration",
		rule:   "encodings are sampled (message, dynamic value incl. opaque composite signatures, typed data for generated signatures, meta-object, object reference, service info, capability map, Go values through the reflection codec); an encoding counts only if the full decode succeeds and consumes every byte. For each, EVERY cut position 0<=k<len (above 4096 bytes - messages of up to 200 KB are among the samples - the first and last 64 positions, 256 random ones and every offset around the 4 KiB / 64 KiB / 128 KiB boundaries; reported by the probe cuts-sampled-not-exhaustive) x {EOF, last bytes together with EOF, ErrUnexpectedEOF, connection reset} x {greedy, random fragmentation} must be refused. evaluations = truncated decodes; distinct_nontrivial = distinct (kind, encoding bytes)",
		assume: []string{"decoders are deterministic functions of the bytes read so far"}},
}

func info(prop string) propInfo {
	if p, ok := props[prop]; ok {
		return p
	}
	return propInfo{level: "exploration",
		rule:   "cases are drawn from PRNG(VERIF_SEED, property, run number): scheduler policy, preemption rate, network capacity/fragmentation, fault mix and a workload of concurrent operations; one case = one simulated run whose every scheduling and I/O decision comes from the recorded tape. A run is non-trivial when at least two harness-level operations overlapped in time and the scheduler switched goroutines at least once; distinct = distinct schedule fingerprints (FNV over the sequence of (goroutine, yield site) at context switches) among non-trivial runs",
		assume: []string{"sequentially consistent interleavings at statement granularity (memory-model effects are out of reach)", "the simulated transport contract (DESIGN.md 3.4) matches the real transports"},
	}
}

// ---------------------------------------------------------------------------
// check

func cmdCheck(args []string) int {
	fs := flag.NewFlagSet("check", flag.ExitOnError)
	tier := fs.String("tier", "", "quick or thorough")
	runsFlag := fs.Int("runs", 0, "override the number of runs")
	workersFlag := fs.Int("workers", 0, "override the number of concurrent workers")
	if len(args) < 1 {
		usage()
	}
	prop := args[0]
	fs.Parse(args[1:])
	if *tier == "" {
		*tier = os.Getenv("VERIF_TIER")
	}
	if *tier != "thorough" {
		*tier = "quick"
	}
	seed := uint64(1)
	if v := os.Getenv("VERIF_SEED"); v != "" {
		if n, err := strconv.ParseUint(v, 10, 64); err == nil {
			seed = n
		} else if n, err := strconv.ParseInt(v, 10, 64); err == nil {
			seed = uint64(n)
		}
	}
	start := time.Now()
	bin, err := ensureBinary()
	if err != nil {
		fmt.Fprintln(os.Stderr, err)
		return 2
	}
	findings, err := loadFindings()
	if err != nil {
		fmt.Fprintln(os.Stderr, "qsim:", err)
		return 2
	}
	var known []string
	for _, f := range findings {
		if f.prop == prop && os.Getenv("QSIM_IGNORE_KNOWN") == "" {
			known = append(known, f.class)
		}
	}
	spec := specFor(prop, *tier)
	if *runsFlag > 0 {
		spec.runs = *runsFlag
	}
	workers := runtime.NumCPU()
	if *workersFlag > 0 {
		workers = *workersFlag
	}
	if v := os.Getenv("QSIM_WORKERS"); v != "" {
		if n, err := strconv.Atoi(v); err == nil && n > 0 {
			workers = n
		}
	}
	replayDir := filepath.Join(outDir(), "replays")
	os.MkdirAll(replayDir, 0755)

	// chunks of runs are handed to a pool of worker processes
	if per := (spec.runs + workers - 1) / workers; per < spec.chunk {
		spec.chunk = per
	}
	if spec.chunk < 1 {
		spec.chunk = 1
	}
	type chunk struct{ from, to int }
	var chunks []chunk
	for f := 0; f < spec.runs; f += spec.chunk {
		t := f + spec.chunk
		if t > spec.runs {
			t = spec.runs
		}
		chunks = append(chunks, chunk{f, t})
	}
	// the budget is that of the runs: the time the build took (minutes on a
	// busy machine) is not taken out of it
	deadline := time.Now().Add(time.Duration(spec.seconds * float64(time.Second)))
	var mu sync.Mutex
	total := summary{Fired: map[string]int{}, Configured: map[string]int{}, Probes: map[string]int{}, Known: map[string]int{},
		KnownDetail: map[string]string{}, InconReasons: map[string]int{}, Batches: map[string]int{}}
	fps := map[uint64]bool{}
	efps := map[uint64]bool{}
	var trouble []string
	var died []workerResult
	var diedJobs []job
	type fatalRun struct {
		run int
		out string
	}
	var fatals []fatalRun
	deaths := map[int]int{}
	recycled := 0
	stop := false
	next := 0
	skipped := 0
	var wg sync.WaitGroup
	for w := 0; w < workers; w++ {
		wg.Add(1)
		go func() {
			defer wg.Done()
			for {
				mu.Lock()
				if stop || next >= len(chunks) {
					mu.Unlock()
					return
				}
				if time.Now().After(deadline) {
					skipped += len(chunks) - next
					next = len(chunks)
					mu.Unlock()
					return
				}
				c := chunks[next]
				next++
				mu.Unlock()
				left := time.Until(deadline).Seconds()
				j := job{Mode: "batch", Prop: prop, Tier: *tier, Seed: seed, Worker: 0, Workers: 1, From: c.from, Runs: c.to,
					MaxSeconds: left, ReplayDir: replayDir, Known: known, MaxViol: 2}
				r := runWorker(bin, j, time.Duration(left+240)*time.Second, 6<<20)
				mu.Lock()
				if r.harnessEr != "" {
					trouble = append(trouble, "harness error: "+r.harnessEr)
					stop = true
				}
				if r.sum == nil {
					if r.harnessEr == "" {
						if r.timedOut || r.lastBegin < 0 {
							died = append(died, r)
							diedJobs = append(diedJobs, j)
						} else {
							// the worker died while executing run lastBegin: try
							// that run alone in a fresh process, then carry on
							// with the rest of the chunk
							mu.Unlock()
							oj := job{Mode: "one", Prop: prop, Tier: *tier, Seed: seed, From: r.lastBegin}
							again := runWorker(bin, oj, 600*time.Second, 6<<20)
							mu.Lock()
							// the dead worker's summary is lost: the runs it had
							// completed are executed again (same results)
							if r.lastBegin > c.from {
								chunks = append(chunks, chunk{c.from, r.lastBegin})
							}
							if again.exitErr != nil && !again.got && !again.timedOut {
								fatals = append(fatals, fatalRun{r.lastBegin, again.output})
								if r.lastBegin+1 < c.to {
									chunks = append(chunks, chunk{r.lastBegin + 1, c.to})
								}
							} else {
								// it only died with what earlier runs had left
								// behind in that process: redo from there
								recycled++
								if deaths[r.lastBegin] < 2 {
									deaths[r.lastBegin]++
									chunks = append(chunks, chunk{r.lastBegin, c.to})
								} else {
									died = append(died, r)
									diedJobs = append(diedJobs, j)
								}
							}
						}
					}
				} else {
					merge(&total, r.sum, fps, efps)
					if len(total.Violations) >= 3 {
						stop = true
					}
				}
				mu.Unlock()
			}
		}()
	}
	wg.Wait()

	exit := 0
	// workers that could not be accounted for
	for i, r := range died {
		j := diedJobs[i]
		switch {
		case r.timedOut:
			trouble = append(trouble, fmt.Sprintf("worker for runs [%d,%d) hit the watchdog (last run started: %d)", j.From, j.Runs, r.lastBegin))
		case r.lastBegin < 0:
			trouble = append(trouble, fmt.Sprintf("worker for runs [%d,%d) died before its first run: %v\n%s", j.From, j.Runs, r.exitErr, r.output))
		default:
			trouble = append(trouble, fmt.Sprintf("worker for runs [%d,%d) keeps dying at run %d although the run survives on its own: %v\n%s", j.From, j.Runs, r.lastBegin, r.exitErr, lastBytes(r.output, 3000)))
		}
	}
	// runs that kill the process on their own, twice: fatal runtime errors
	sort.Slice(fatals, func(i, j int) bool { return fatals[i].run < fatals[j].run })
	seenFatal := map[string]bool{}
	for _, f := range fatals {
		class := prop + "/fatal/" + fatalClass(f.out)
		isKnown := false
		for _, k := range known {
			if k == class {
				isKnown = true
			}
		}
		if isKnown {
			total.Known[class]++
			total.KnownDetail[class] = "the simulated process dies with a fatal runtime error"
			continue
		}
		if seenFatal[class] {
			continue
		}
		seenFatal[class] = true
		file := filepath.Join(replayDir, fmt.Sprintf("%s-seed%d-run%d-fatal.json", prop, seed, f.run))
		b, _ := json.MarshalIndent(map[string]interface{}{"prop": prop, "seed": seed, "run": f.run, "regen": true, "tier": *tier, "expect": class,
			"detail": firstBytes(f.out, 3000)}, "", " ")
		os.WriteFile(file, b, 0644)
		total.Violations = append(total.Violations, violationReport{Class: class, Detail: firstBytes(f.out, 1500), Run: f.run, File: file})
		fmt.Printf("VIOLATION property=%s replay=%s\n", prop, file)
		fmt.Printf("  class=%s\n  %s\n", class, strings.ReplaceAll(firstBytes(f.out, 1500), "\n", "\n  "))
		exit = 1
	}
	if recycled > 0 {
		fmt.Printf("qsim: %d worker processes died of what earlier runs had left behind (not of the run itself) and were replaced\n", recycled)
	}

	// confirm each violation by replaying its file in a fresh process
	confirmed := 0
	for _, v := range total.Violations {
		if strings.HasSuffix(v.File, "-fatal.json") {
			confirmed++
			continue
		}
		rj := job{Mode: "replay", File: v.File}
		r := runWorker(bin, rj, 600*time.Second, 6<<20)
		var rep struct {
			Reproduced bool `json:"reproduced"`
		}
		json.Unmarshal([]byte(firstJSON(r.output)), &rep)
		if rep.Reproduced {
			confirmed++
			fmt.Printf("VIOLATION property=%s replay=%s\n", prop, v.File)
			fmt.Printf("  class=%s run=%d ops %d->%d tape %d->%d (minimiser tries: %d)\n  %s\n", v.Class, v.Run, v.OpsFrom, v.OpsTo, v.TapeFrom, v.TapeTo, v.Tries,
				strings.ReplaceAll(v.Detail, "\n", "\n  "))
			exit = 1
		} else {
			trouble = append(trouble, fmt.Sprintf("violation %s (run %d, %s) did not reproduce in a fresh process: determinism bug in the machinery\n%s", v.Class, v.Run, v.File, lastBytes(r.output, 2000)))
		}
	}

	var classes []string
	for c := range total.Known {
		classes = append(classes, c)
	}
	sort.Strings(classes)
	for _, c := range classes {
		text := total.KnownDetail[c]
		for _, f := range findings {
			if f.class == c && f.text != "" {
				text = f.text
			}
		}
		fmt.Printf("KNOWN-FINDING: property=%s class=%s seen=%d %s\n", prop, c, total.Known[c], text)
	}

	wall := time.Since(start).Seconds()
	if total.Evaluations > 0 {
		if err := writeEvidence(prop, *tier, seed, &total, fps, efps, wall, confirmed, skipped*spec.chunk, workers); err != nil {
			trouble = append(trouble, "writing evidence: "+err.Error())
		}
	}
	inconPct := 0.0
	if total.Evaluations > 0 {
		inconPct = 100 * float64(total.Inconclusive) / float64(total.Runs)
	}
	fmt.Printf("qsim: %s %s seed=%d evaluations=%d nontrivial=%d distinct-schedules=%d steps=%d sim-seconds=%.0f inconclusive=%d (%.2f%%) wall=%.1fs\n",
		prop, *tier, seed, total.Evaluations, total.Nontrivial, len(fps), total.Steps, total.SimSeconds, total.Inconclusive, inconPct, wall)
	if len(total.Fired) > 0 {
		fmt.Printf("qsim: faults fired: %s\n", fmtMap(total.Fired))
	}
	if len(total.Probes) > 0 {
		fmt.Printf("qsim: probes: %s\n", fmtMap(total.Probes))
	}
	if skipped > 0 {
		fmt.Printf("qsim: time budget reached: about %d planned runs were not started\n", skipped*spec.chunk)
	}
	if inconPct > 2 {
		trouble = append(trouble, fmt.Sprintf("%.1f%% of the runs were inconclusive (%v)", inconPct, total.InconReasons))
	}
	if total.Evaluations == 0 {
		trouble = append(trouble, "no run was evaluated")
	}
	for _, t := range trouble {
		fmt.Fprintln(os.Stderr, "qsim: TROUBLE:", t)
	}
	if exit == 1 {
		return 1
	}
	if len(trouble) > 0 {
		return 2
	}
	return 0
}

// fatalClass names a fatal runtime error by its message and the innermost
// function of the code under test on the dying goroutine's stack.
func fatalClass(out string) string {
	msg, where := "worker-process-died", ""
	lines := strings.Split(out, "\n")
	for i, l := range lines {
		if strings.HasPrefix(l, "fatal error: ") && msg == "worker-process-died" {
			msg = strings.ReplaceAll(strings.TrimPrefix(l, "fatal error: "), " ", "-")
			for _, m := range lines[i:] {
				if strings.HasPrefix(m, "github.com/lugu/qiloop/") {
					where = strings.TrimPrefix(m, "github.com/lugu/qiloop/")
					if j := strings.IndexByte(where, '('); j > 0 && !strings.HasPrefix(where[j:], "(*") {
						where = where[:j]
					} else if j := strings.LastIndexByte(where, '('); j > 0 {
						where = where[:j]
					}
					break
				}
				if strings.HasPrefix(m, "goroutine ") && m != lines[i] && where == "" && strings.Contains(m, "[") && !strings.Contains(m, "running") {
					break
				}
			}
			break
		}
	}
	if where != "" {
		return msg + "@" + where
	}
	return msg
}

func firstJSON(s string) string {
	if i := strings.IndexByte(s, '{'); i >= 0 {
		dec := json.NewDecoder(strings.NewReader(s[i:]))
		var raw json.RawMessage
		if dec.Decode(&raw) == nil {
			return string(raw)
		}
	}
	return "{}"
}

func fmtMap(m map[string]int) string {
	var ks []string
	for k := range m {
		ks = append(ks, k)
	}
	sort.Strings(ks)
	var parts []string
	for _, k := range ks {
		parts = append(parts, fmt.Sprintf("%s=%d", k, m[k]))
	}
	return strings.Join(parts, " ")
}

func merge(t *summary, s *summary, fps, efps map[uint64]bool) {
	t.Evaluations += s.Evaluations
	t.Runs += s.Runs
	t.Nontrivial += s.Nontrivial
	t.Steps += s.Steps
	t.Switches += s.Switches
	t.Yields += s.Yields
	t.Preempts += s.Preempts
	t.MapOrders += s.MapOrders
	t.SimSeconds += s.SimSeconds
	t.OpsDone += s.OpsDone
	t.Inconclusive += s.Inconclusive
	for k, v := range s.Fired {
		t.Fired[k] += v
	}
	for k, v := range s.Configured {
		t.Configured[k] += v
	}
	for k, v := range s.Probes {
		t.Probes[k] += v
	}
	for k, v := range s.InconReasons {
		t.InconReasons[k] += v
	}
	for k, v := range s.Batches {
		t.Batches[k] += v
	}
	if t.Sites == nil {
		t.Sites = map[string]int{}
	}
	for k, v := range s.Sites {
		t.Sites[k] += v
	}
	for k, v := range s.Known {
		t.Known[k] += v
		if _, ok := t.KnownDetail[k]; !ok {
			t.KnownDetail[k] = s.KnownDetail[k]
		}
	}
	for _, f := range s.Fingerprints {
		fps[f] = true
	}
	for _, f := range s.EventFPs {
		efps[f] = true
	}
	t.Violations = append(t.Violations, s.Violations...)
	if len(t.Samples) < 3 {
		t.Samples = append(t.Samples, s.Samples...)
		if len(t.Samples) > 3 {
			t.Samples = t.Samples[:3]
		}
	}
}

func writeEvidence(prop, tier string, seed uint64, t *summary, fps, efps map[uint64]bool, wall float64, confirmed, notStarted, workers int) error {
	pi := info(prop)
	samples := []interface{}{}
	for _, s := range t.Samples {
		var v interface{}
		if json.Unmarshal(s, &v) == nil {
			samples = append(samples, v)
		}
	}
	if len(samples) == 0 {
		samples = append(samples, "no non-trivial run in this batch")
	}
	faults := map[string]map[string]int{}
	for k, v := range t.Configured {
		if faults[k] == nil {
			faults[k] = map[string]int{}
		}
		faults[k]["runs_configured"] = v
	}
	for k, v := range t.Fired {
		if faults[k] == nil {
			faults[k] = map[string]int{}
		}
		faults[k]["fired"] = v
	}
	sites := siteReport(t.Sites)
	cov := map[string]interface{}{
		"statement_sites":           sites,
		"evaluations":               t.Evaluations,
		"distinct_nontrivial":       len(fps),
		"rule":                      pi.rule,
		"samples":                   samples,
		"nontrivial_items":          t.Nontrivial,
		"simulated_runs":            t.Runs,
		"distinct_event_orders":     len(efps),
		"scheduler_decisions":       t.Steps,
		"context_switches":          t.Switches,
		"yield_points_executed":     t.Yields,
		"preemptions":               t.Preempts,
		"map_ranges_in_drawn_order": t.MapOrders,
		"simulated_seconds":         t.SimSeconds,
		"operations_completed":      t.OpsDone,
		"runs_per_hour":             float64(t.Evaluations) / wall * 3600,
		"seeds":                     []uint64{seed},
		"faults":                    faults,
		"probes":                    t.Probes,
		"sub_batches":               t.Batches,
		"inconclusive_runs":         t.Inconclusive,
		"inconclusive_reasons":      t.InconReasons,
		"known_findings_seen":       t.Known,
		"violations_confirmed":      confirmed,
		"planned_runs_not_started":  notStarted,
		"worker_processes_parallel": workers,
		"real_components": []string{"bus/net (message codec, endPoint, connStream)", "bus (client, proxy, channel, server, router, service, mailbox, object, signal, authentication)",
			"bus/directory, bus/services, bus/session", "generated stubs/proxies checked into the tree and freshly generated ones for the probe IDL (tree's own generator)", "type/*, meta/* (uninstrumented)"},
		"stub_components": stubsCommon,
		"exhaustive":      false,
	}
	ev := map[string]interface{}{
		"property_id": prop,
		"tier":        tier,
		"seed":        seed,
		"level":       pi.level,
		"coverage":    cov,
		"assumptions": pi.assume,
		"wall_s":      wall,
		"violations":  confirmed,
	}
	b, err := json.MarshalIndent(ev, "", " ")
	if err != nil {
		return err
	}
	dir := filepath.Join(outDir(), "evidence")
	os.MkdirAll(dir, 0755)
	return os.WriteFile(filepath.Join(dir, prop+".json"), b, 0644)
}

// siteReport relates the statement sites of the instrumented code passed by
// running goroutines to the list the instrumenter wrote at build time: per
// file, how many of its sites this batch reached. With QSIM_COVER set the
// sites never reached are listed on stderr (a diagnostic for workloads).
func siteReport(hit map[string]int) map[string]interface{} {
	rep := map[string]interface{}{"measure": "statement positions of the instrumented packages (a yield point precedes every statement) passed by a running goroutine during this batch"}
	if _, err := ensureBinary(); err != nil || len(siteList) == 0 {
		return rep
	}
	data := siteList
	type fc struct{ hit, total int }
	files := map[string]*fc{}
	var missed []string
	total, reached := 0, 0
	for _, site := range strings.Fields(string(data)) {
		file := site
		if i := strings.LastIndex(site, ":"); i > 0 {
			file = site[:i]
		}
		if strings.HasSuffix(file, "_gen.go") || strings.HasPrefix(file, "examples/") || strings.HasPrefix(file, "zzprobe/") {
			continue // generated proxies/stubs of interfaces no scenario uses
		}
		f := files[file]
		if f == nil {
			f = &fc{}
			files[file] = f
		}
		f.total++
		total++
		if hit[site] > 0 {
			f.hit++
			reached++
		} else {
			missed = append(missed, site)
		}
	}
	by := map[string]string{}
	for name, f := range files {
		by[name] = fmt.Sprintf("%d/%d", f.hit, f.total)
	}
	rep["reached"] = reached
	rep["total_hand_written"] = total
	rep["by_file"] = by
	if dir := os.Getenv("QSIM_COVER"); dir != "" {
		// QSIM_COVER=<dir>: the reached sites go to <dir>/<time>.sites too
		var got []string
		for k, n := range hit {
			if n > 0 {
				got = append(got, k)
			}
		}
		sort.Strings(got)
		if os.MkdirAll(dir, 0755) == nil {
			os.WriteFile(filepath.Join(dir, fmt.Sprintf("%d.sites", time.Now().UnixNano())), []byte(strings.Join(got, "\n")+"\n"), 0644)
		}
		sort.Strings(missed)
		fmt.Fprintf(os.Stderr, "qsim: statement sites never reached (%d of %d):\n", len(missed), total)
		for _, m := range missed {
			fmt.Fprintf(os.Stderr, "  %s\n", m)
		}
	}
	return rep
}

// ---------------------------------------------------------------------------
// replay

func cmdReplay(args []string) int {
	fs := flag.NewFlagSet("replay", flag.ExitOnError)
	trace := fs.Bool("trace", false, "print the event log")
	if len(args) < 1 {
		usage()
	}
	file := args[0]
	fs.Parse(args[1:])
	bin, err := ensureBinary()
	if err != nil {
		fmt.Fprintln(os.Stderr, err)
		return 2
	}
	abs, _ := filepath.Abs(file)
	data, err := os.ReadFile(abs)
	if err != nil {
		fmt.Fprintln(os.Stderr, err)
		return 2
	}
	var hdr struct {
		Prop   string `json:"prop"`
		Seed   uint64 `json:"seed"`
		Run    int    `json:"run"`
		Regen  bool   `json:"regen"`
		Tier   string `json:"tier"`
		Expect string `json:"expect"`
	}
	json.Unmarshal(data, &hdr)
	if hdr.Regen {
		r := runWorker(bin, job{Mode: "one", Prop: hdr.Prop, Tier: hdr.Tier, Seed: hdr.Seed, From: hdr.Run}, 600*time.Second, 6<<20)
		if r.exitErr != nil {
			fmt.Printf("replay: the worker process died again: %v\n%s\n", r.exitErr, lastBytes(r.output, 4000))
			fmt.Printf("VIOLATION property=%s replay=%s\n", hdr.Prop, abs)
			return 1
		}
		fmt.Println(r.output)
		return 0
	}
	r := runWorker(bin, job{Mode: "replay", File: abs, Trace: *trace}, 600*time.Second, 6<<20)
	js := firstJSON(r.output)
	var rep struct {
		Reproduced bool `json:"reproduced"`
		Violations []struct {
			Class  string `json:"class"`
			Detail string `json:"detail"`
		} `json:"violations"`
		History []string `json:"history"`
	}
	json.Unmarshal([]byte(js), &rep)
	for _, h := range rep.History {
		fmt.Println("history:", h)
	}
	for _, v := range rep.Violations {
		fmt.Printf("violation: %s\n  %s\n", v.Class, strings.ReplaceAll(v.Detail, "\n", "\n  "))
	}
	if r.exitErr != nil {
		fmt.Fprintf(os.Stderr, "replay: worker failed: %v\n%s\n", r.exitErr, lastBytes(r.output, 4000))
		return 2
	}
	if rep.Reproduced {
		fmt.Printf("VIOLATION property=%s replay=%s\n", hdr.Prop, abs)
		return 1
	}
	fmt.Printf("replay: expected class %q was not reproduced\n", hdr.Expect)
	return 0
}

// ---------------------------------------------------------------------------
// selftest determinism

func cmdSelftest(args []string) int {
	if len(args) < 1 || args[0] != "determinism" {
		usage()
	}
	plist := args[1:]
	if len(plist) == 0 {
		plist = []string{"C01", "C04", "C06", "C08", "C10", "C11", "C12", "C13", "C14", "C15", "C16", "C17", "C19"}
	}
	bin, err := ensureBinary()
	if err != nil {
		fmt.Fprintln(os.Stderr, err)
		return 2
	}
	nseeds := 40
	if v := os.Getenv("QSIM_SELFTEST_RUNS"); v != "" {
		if n, err := strconv.Atoi(v); err == nil {
			nseeds = n
		}
	}
	bad := 0
	for _, p := range plist {
		type res struct {
			key string
			out string
		}
		var mu sync.Mutex
		var outs []res
		var wg sync.WaitGroup
		sem := make(chan struct{}, runtime.NumCPU())
		for _, gmp := range []string{"1", "4", "16"} {
			for rep := 0; rep < 2; rep++ {
				wg.Add(1)
				go func(gmp string, rep int) {
					defer wg.Done()
					sem <- struct{}{}
					defer func() { <-sem }()
					o := digestRun(bin, p, nseeds, gmp)
					mu.Lock()
					outs = append(outs, res{fmt.Sprintf("GOMAXPROCS=%s #%d", gmp, rep), o})
					mu.Unlock()
				}(gmp, rep)
			}
		}
		wg.Wait()
		ok := true
		for _, o := range outs[1:] {
			if o.out != outs[0].out {
				ok = false
				fmt.Printf("selftest: %s: %s differs from %s\n", p, o.key, outs[0].key)
				printDiff(outs[0].out, o.out)
			}
		}
		if strings.Contains(outs[0].out, "DIGEST-MISMATCH") {
			ok = false
			fmt.Printf("selftest: %s: replaying a recorded tape gave a different run\n", p)
			for _, l := range strings.Split(outs[0].out, "\n") {
				if strings.Contains(l, "MISMATCH") {
					fmt.Println("  " + l)
				}
			}
		}
		lines := strings.Count(outs[0].out, "\nDIGEST ") + 1
		if !strings.Contains(outs[0].out, "DIGEST ") {
			ok = false
			lines = 0
			fmt.Printf("selftest: %s: no digest produced:\n%s\n", p, lastBytes(outs[0].out, 2000))
		}
		if ok {
			fmt.Printf("selftest: %s: %d runs x %d processes (GOMAXPROCS 1/4/16) identical, record==replay\n", p, lines, len(outs))
		} else {
			bad++
		}
	}
	if bad > 0 {
		return 2
	}
	return 0
}

func digestRun(bin, prop string, n int, gmp string) string {
	dir, _ := os.MkdirTemp("", "qsim-dg-")
	defer os.RemoveAll(dir)
	jf := filepath.Join(dir, "job.json")
	from := 0
	if v := os.Getenv("QSIM_SELFTEST_FROM"); v != "" {
		from, _ = strconv.Atoi(v) // first run number (C11: blocks of 640 runs; block 7 = stalled server, block 4 = application close)
	}
	b, _ := json.Marshal(job{Mode: "digest", Prop: prop, Tier: "quick", Seed: 7, From: from, Runs: from + n})
	os.WriteFile(jf, b, 0644)
	cmd := exec.Command(bin, "-test.run", "^TestWorker$", "-test.timeout", "0")
	cmd.Env = append(os.Environ(), "QSIM_JOB="+jf, "GOMAXPROCS="+gmp)
	cmd.Dir = dir
	out, err := cmd.CombinedOutput()
	var keep []string
	for _, l := range strings.Split(string(out), "\n") {
		if strings.HasPrefix(l, "DIGEST") {
			keep = append(keep, l)
		}
	}
	if err != nil {
		keep = append(keep, "ERROR "+err.Error()+" "+lastBytes(string(out), 1500))
	}
	return strings.Join(keep, "\n")
}

func printDiff(a, b string) {
	al, bl := strings.Split(a, "\n"), strings.Split(b, "\n")
	n := 0
	for i := 0; i < len(al) || i < len(bl); i++ {
		var x, y string
		if i < len(al) {
			x = al[i]
		}
		if i < len(bl) {
			y = bl[i]
		}
		if x != y {
			fmt.Printf("  - %s\n  + %s\n", x, y)
			n++
			if n >= 4 {
				return
			}
		}
	}
}
