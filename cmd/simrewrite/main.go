// simrewrite instruments a scratch copy of lugu/qiloop for deterministic
// simulation (DESIGN.md section 3.2). It never touches /repo: the driver
// hands it a copy. The rewrite keys on language constructs only.
//
//	simrewrite -root <copy of the tree> -pkgs bus,bus/net,...
//
// Exit status 0 on success; 2 when a construct is met which the rewriter
// refuses to guess about (the driver reports that as build trouble, never as
// a violation).
package main

import (
	"bytes"
	"flag"
	"fmt"
	"go/ast"
	"go/format"
	"go/token"
	"go/types"
	"os"
	"path/filepath"
	"sort"
	"strconv"
	"strings"

	"golang.org/x/tools/go/packages"
)

const simPath = "zzsim"

var shimImports = map[string]string{
	"sync":                    "zzsim/zsync",
	"math/rand":               "zzsim/zrand",
	"net":                     "zzsim/znet",
	"crypto/tls":              "zzsim/ztls",
	"time":                    "zzsim/ztime",
	"github.com/ftrvxmtrx/fd": "zzsim/zfd",
}

// "os" is redirected only in files that use it for nothing but pipes
// (os.Pipe, os.File): the fd-passing transport
const osShim = "zzsim/zos"

var osPipeOnly = map[string]bool{"Pipe": true, "File": true}

var defaultNames = map[string]string{
	"sync":                    "sync",
	"math/rand":               "rand",
	"net":                     "net",
	"crypto/tls":              "tls",
	"time":                    "time",
	"github.com/ftrvxmtrx/fd": "fd",
}

type stats struct {
	yields, gos, selects, mapRanges, mapRangesSkipped, files, mapAccesses, mapHoists, resets int
}

var st stats

var perLoopVars bool

var mapsFlag = flag.Bool("maps", false, "announce map accesses (zzsim.M) before statements that cannot synchronise")

var allSites []string
var refusals []string

func refuse(fset *token.FileSet, pos token.Pos, format string, args ...interface{}) {
	refusals = append(refusals, fmt.Sprintf("%s: %s", fset.Position(pos), fmt.Sprintf(format, args...)))
}

type rewriter struct {
	fset *token.FileSet
	info *types.Info
	pkg  *types.Package
	rel  string // file path relative to the root, used in site names
	tmp  int
}

func main() {
	root := flag.String("root", "", "root of the scratch copy")
	pkgs := flag.String("pkgs", "", "comma separated package directories relative to root")
	sitesOut := flag.String("sites", "", "write the list of yield sites to this file")
	flag.Parse()
	if *root == "" || *pkgs == "" {
		fmt.Fprintln(os.Stderr, "usage: simrewrite -root DIR -pkgs a,b,c")
		os.Exit(2)
	}
	abs, err := filepath.Abs(*root)
	if err != nil {
		fatal(err)
	}
	// modules declaring a Go version before 1.22 have one instance of a range
	// loop's variables for the whole loop
	if gm, err := os.ReadFile(filepath.Join(abs, "go.mod")); err == nil {
		for _, l := range strings.Split(string(gm), "\n") {
			f := strings.Fields(l)
			if len(f) == 2 && f[0] == "go" {
				var maj, min int
				if n, _ := fmt.Sscanf(f[1], "%d.%d", &maj, &min); n == 2 && (maj < 1 || (maj == 1 && min < 22)) {
					perLoopVars = true
				}
			}
		}
	}
	var patterns []string
	for _, p := range strings.Split(*pkgs, ",") {
		patterns = append(patterns, "./"+strings.TrimSpace(p))
	}
	fset := token.NewFileSet()
	cfg := &packages.Config{
		Mode: packages.NeedName | packages.NeedFiles | packages.NeedCompiledGoFiles |
			packages.NeedSyntax | packages.NeedTypes | packages.NeedTypesInfo | packages.NeedImports,
		Dir:  abs,
		Fset: fset,
		Env:  os.Environ(),
	}
	loaded, err := packages.Load(cfg, patterns...)
	if err != nil {
		fatal(err)
	}
	bad := false
	for _, p := range loaded {
		for _, e := range p.Errors {
			fmt.Fprintf(os.Stderr, "simrewrite: load %s: %s\n", p.PkgPath, e)
			bad = true
		}
	}
	if bad {
		os.Exit(2)
	}
	type out struct {
		path string
		data []byte
	}
	var outs []out
	for _, p := range loaded {
		for i, f := range p.Syntax {
			path := p.CompiledGoFiles[i]
			if strings.HasSuffix(path, "_test.go") {
				continue
			}
			rel, err := filepath.Rel(abs, path)
			if err != nil {
				fatal(err)
			}
			rw := &rewriter{fset: fset, info: p.TypesInfo, pkg: p.Types, rel: filepath.ToSlash(rel)}
			rw.file(f)
			f.Comments = nil
			var buf bytes.Buffer
			if err := format.Node(&buf, fset, f); err != nil {
				fatal(fmt.Errorf("%s: %v", path, err))
			}
			outs = append(outs, out{path, buf.Bytes()})
			st.files++
		}
	}
	// scalar state kept in package level variables (counters, flags) belongs
	// to the process: every simulated run must start from the values a fresh
	// process has. One generated file per package restores them.
	for _, p := range loaded {
		var lines []string
		for i, f := range p.Syntax {
			if strings.HasSuffix(p.CompiledGoFiles[i], "_test.go") {
				continue
			}
			for _, d := range f.Decls {
				gd, ok := d.(*ast.GenDecl)
				if !ok || gd.Tok != token.VAR {
					continue
				}
				for _, sp := range gd.Specs {
					vs := sp.(*ast.ValueSpec)
					for k, n := range vs.Names {
						if n.Name == "_" {
							continue
						}
						obj := p.TypesInfo.Defs[n]
						if obj == nil {
							continue
						}
						b, ok := obj.Type().Underlying().(*types.Basic)
						if !ok || b.Info()&(types.IsNumeric|types.IsBoolean) == 0 {
							continue
						}
						val := "0"
						if b.Info()&types.IsBoolean != 0 {
							val = "false"
						}
						if len(vs.Values) > 0 {
							if len(vs.Values) != len(vs.Names) {
								continue
							}
							tv, ok := p.TypesInfo.Types[vs.Values[k]]
							if !ok || tv.Value == nil {
								continue // not a constant: leave it alone
							}
							val = tv.Value.ExactString()
						}
						lines = append(lines, fmt.Sprintf("\t\t%s = %s", n.Name, val))
					}
				}
			}
		}
		if len(lines) == 0 || len(p.CompiledGoFiles) == 0 {
			continue
		}
		sort.Strings(lines)
		src := "package " + p.Name + "\n\nimport \"zzsim\"\n\nfunc init() {\n\tzzsim.OnRunStart(func() {\n" + strings.Join(lines, "\n") + "\n\t})\n}\n"
		outs = append(outs, out{filepath.Join(filepath.Dir(p.CompiledGoFiles[0]), "zz_runstart_gen.go"), []byte(src)})
		st.resets += len(lines)
	}
	if len(refusals) > 0 {
		for _, r := range refusals {
			fmt.Fprintf(os.Stderr, "simrewrite: refused: %s\n", r)
		}
		os.Exit(2)
	}
	for _, o := range outs {
		if err := os.WriteFile(o.path, o.data, 0644); err != nil {
			fatal(err)
		}
	}
	if *sitesOut != "" {
		sort.Strings(allSites)
		var uniq []string
		for i, x := range allSites {
			if i == 0 || x != allSites[i-1] {
				uniq = append(uniq, x)
			}
		}
		if err := os.WriteFile(*sitesOut, []byte(strings.Join(uniq, "\n")+"\n"), 0644); err != nil {
			fatal(err)
		}
	}
	fmt.Printf("simrewrite: files=%d yields=%d go=%d selects=%d mapranges=%d mapranges_unordered=%d mapaccesses=%d hoisted=%d globals_reset=%d\n",
		st.files, st.yields, st.gos, st.selects, st.mapRanges, st.mapRangesSkipped, st.mapAccesses, st.mapHoists, st.resets)
}

func fatal(err error) {
	fmt.Fprintf(os.Stderr, "simrewrite: %v\n", err)
	os.Exit(2)
}

// ---------------------------------------------------------------------------

func (rw *rewriter) file(f *ast.File) {
	for _, d := range f.Decls {
		switch d := d.(type) {
		case *ast.FuncDecl:
			if d.Body != nil {
				rw.block(d.Body)
			}
		case *ast.GenDecl:
			rw.funcLits(d)
		}
	}
	rw.imports(f)
}

// imports redirects the std packages that carry nondeterminism to the shims
// and adds the zzsim import.
func (rw *rewriter) imports(f *ast.File) {
	have := false
	for _, spec := range f.Imports {
		p, _ := strconv.Unquote(spec.Path.Value)
		if p == simPath && (spec.Name == nil || spec.Name.Name == "zzsim") {
			have = true
		}
		shim, ok := shimImports[p]
		if p == "os" && rw.osForPipesOnly(f, spec) {
			shim, ok = osShim, true
			if spec.Name == nil {
				spec.Name = ast.NewIdent("os")
			}
		}
		if !ok {
			continue
		}
		if spec.Name == nil {
			spec.Name = ast.NewIdent(defaultNames[p])
		}
		spec.Path = &ast.BasicLit{Kind: token.STRING, Value: strconv.Quote(shim)}
	}
	if have {
		return
	}
	spec := &ast.ImportSpec{
		Name: ast.NewIdent("zzsim"),
		Path: &ast.BasicLit{Kind: token.STRING, Value: strconv.Quote(simPath)},
	}
	decl := &ast.GenDecl{Tok: token.IMPORT, Specs: []ast.Spec{spec}}
	// keep imports first
	idx := 0
	for i, d := range f.Decls {
		if g, ok := d.(*ast.GenDecl); ok && g.Tok == token.IMPORT {
			idx = i + 1
		}
	}
	decls := append([]ast.Decl{}, f.Decls[:idx]...)
	decls = append(decls, decl)
	decls = append(decls, f.Decls[idx:]...)
	f.Decls = decls
	f.Imports = append(f.Imports, spec)
	// a reference so that the import is never unused
	f.Decls = append(f.Decls, &ast.GenDecl{Tok: token.VAR, Specs: []ast.Spec{&ast.ValueSpec{
		Names:  []*ast.Ident{ast.NewIdent("_")},
		Values: []ast.Expr{sel("zzsim", "W")},
	}}})
}

// osForPipesOnly tells whether every use the file makes of package os is
// os.Pipe or os.File.
func (rw *rewriter) osForPipesOnly(f *ast.File, spec *ast.ImportSpec) bool {
	name := "os"
	if spec.Name != nil {
		name = spec.Name.Name
	}
	uses, only := 0, true
	ast.Inspect(f, func(n ast.Node) bool {
		se, ok := n.(*ast.SelectorExpr)
		if !ok {
			return true
		}
		id, ok := se.X.(*ast.Ident)
		if !ok || id.Name != name {
			return true
		}
		if pn, ok := rw.info.Uses[id].(*types.PkgName); !ok || pn.Imported().Path() != "os" {
			return true
		}
		uses++
		if !osPipeOnly[se.Sel.Name] {
			only = false
		}
		return true
	})
	return uses > 0 && only
}

func sel(x, name string) *ast.SelectorExpr {
	return &ast.SelectorExpr{X: ast.NewIdent(x), Sel: ast.NewIdent(name)}
}

func (rw *rewriter) site(pos token.Pos) string {
	return rw.rel + ":" + strconv.Itoa(rw.fset.Position(pos).Line)
}

func strLit(s string) *ast.BasicLit {
	return &ast.BasicLit{Kind: token.STRING, Value: strconv.Quote(s)}
}

func intLit(i int) *ast.BasicLit {
	return &ast.BasicLit{Kind: token.INT, Value: strconv.Itoa(i)}
}

func (rw *rewriter) yield(pos token.Pos) ast.Stmt {
	st.yields++
	allSites = append(allSites, rw.site(pos))
	return &ast.ExprStmt{X: &ast.CallExpr{Fun: sel("zzsim", "W"), Args: []ast.Expr{strLit(rw.site(pos))}}}
}

func (rw *rewriter) name(prefix string) string {
	rw.tmp++
	return "__z" + prefix + strconv.Itoa(rw.tmp)
}

// funcLits instruments the bodies of the function literals found in n
// (without descending into them twice).
func (rw *rewriter) funcLits(n ast.Node) {
	if n == nil {
		return
	}
	ast.Inspect(n, func(x ast.Node) bool {
		if fl, ok := x.(*ast.FuncLit); ok {
			rw.block(fl.Body)
			return false
		}
		return true
	})
}

func (rw *rewriter) block(b *ast.BlockStmt) {
	if b == nil {
		return
	}
	b.List = rw.list(b.List)
}

func (rw *rewriter) list(in []ast.Stmt) []ast.Stmt {
	out := make([]ast.Stmt, 0, 2*len(in))
	for _, s := range in {
		pos := s.Pos()
		pre := rw.hoistCall(s)
		hooks := rw.mapHooks(s)
		ns := rw.stmt(s)
		out = append(out, rw.yield(pos))
		out = append(out, pre...)
		out = append(out, hooks...)
		out = append(out, ns)
	}
	return out
}

// hoistCall turns `m[k] = pkg.F(a, b)` into `t := pkg.F(a, b); m[k] = t` so
// that the store into the map becomes a statement of its own, which mapHooks
// can announce. Only where moving the call in front of the evaluation of m
// and k cannot matter: m is a plain selector chain, k and the arguments are
// plain selector chains or literals, and F is a function of another package
// (it cannot reach the caller's variables).
func (rw *rewriter) hoistCall(s ast.Stmt) []ast.Stmt {
	if !*mapsFlag {
		return nil
	}
	as, ok := s.(*ast.AssignStmt)
	if !ok || as.Tok != token.ASSIGN || len(as.Lhs) != 1 || len(as.Rhs) != 1 {
		return nil
	}
	ix, ok := as.Lhs[0].(*ast.IndexExpr)
	if !ok || !simpleExpr(ix.X) || !plainOperand(ix.Index) {
		return nil
	}
	if t := rw.info.TypeOf(ix.X); t == nil {
		return nil
	} else if _, isMap := t.Underlying().(*types.Map); !isMap {
		return nil
	}
	call, ok := as.Rhs[0].(*ast.CallExpr)
	if !ok || call.Ellipsis.IsValid() {
		return nil
	}
	fun, ok := call.Fun.(*ast.SelectorExpr)
	if !ok {
		return nil
	}
	pkgID, ok := fun.X.(*ast.Ident)
	if !ok {
		return nil
	}
	if _, isPkg := rw.info.Uses[pkgID].(*types.PkgName); !isPkg {
		return nil
	}
	if tv, ok := rw.info.Types[call.Fun]; ok && tv.IsType() {
		return nil
	}
	if sig, ok := rw.info.TypeOf(call.Fun).(*types.Signature); !ok || sig.Results().Len() != 1 {
		return nil
	}
	for _, a := range call.Args {
		if !plainOperand(a) {
			return nil
		}
	}
	tmp := ast.NewIdent(rw.name("t"))
	as.Rhs[0] = tmp
	st.mapHoists++
	return []ast.Stmt{&ast.AssignStmt{Lhs: []ast.Expr{tmp}, Tok: token.DEFINE, Rhs: []ast.Expr{call}}}
}

func plainOperand(e ast.Expr) bool {
	switch e := e.(type) {
	case *ast.BasicLit:
		return true
	case *ast.ParenExpr:
		return plainOperand(e.X)
	}
	return simpleExpr(e)
}

// mapHooks returns the zzsim.M calls announcing the map accesses of a
// statement (for an if or switch: of its init statement and condition). Only
// statements that cannot synchronise with anybody are announced: no call
// other than a builtin or a conversion, no channel operation, no function
// literal; and only maps named by a plain selector chain (evaluated twice).
func (rw *rewriter) mapHooks(s ast.Stmt) []ast.Stmt {
	if !*mapsFlag {
		return nil
	}
	var parts []ast.Node
	switch s := s.(type) {
	case *ast.AssignStmt, *ast.IncDecStmt, *ast.ExprStmt, *ast.ReturnStmt, *ast.DeclStmt:
		parts = []ast.Node{s}
	case *ast.IfStmt:
		if s.Init != nil {
			parts = append(parts, s.Init)
		}
		parts = append(parts, s.Cond)
	case *ast.SwitchStmt:
		if s.Init != nil {
			parts = append(parts, s.Init)
		}
		if s.Tag != nil {
			parts = append(parts, s.Tag)
		}
	case *ast.RangeStmt:
		if t := rw.info.TypeOf(s.X); t != nil && *mapsFlag && simpleExpr(s.X) {
			if _, ok := t.Underlying().(*types.Map); ok {
				st.mapAccesses++
				return []ast.Stmt{&ast.ExprStmt{X: &ast.CallExpr{Fun: sel("zzsim", "M"),
					Args: []ast.Expr{s.X, ast.NewIdent("false"), strLit(rw.site(s.Pos()))}}}}
			}
		}
		return nil
	default:
		return nil
	}
	quiet := true
	writes := map[ast.Expr]bool{}
	var accesses []*ast.IndexExpr
	var deletes []ast.Expr
	for _, part := range parts {
		ast.Inspect(part, func(n ast.Node) bool {
			switch n := n.(type) {
			case *ast.FuncLit, *ast.SendStmt, *ast.GoStmt, *ast.DeferStmt:
				quiet = false
				return false
			case *ast.UnaryExpr:
				if n.Op == token.ARROW {
					quiet = false
				}
			case *ast.CallExpr:
				tv, ok := rw.info.Types[n.Fun]
				switch {
				case ok && tv.IsType():
				case ok && tv.IsBuiltin():
					if id, isID := n.Fun.(*ast.Ident); isID && id.Name == "delete" && len(n.Args) == 2 {
						deletes = append(deletes, n.Args[0])
					} else if isID && (id.Name == "panic" || id.Name == "recover" || id.Name == "close" || id.Name == "print" || id.Name == "println") {
						quiet = false
					}
				default:
					quiet = false
				}
			case *ast.AssignStmt:
				for _, l := range n.Lhs {
					if ix, ok := l.(*ast.IndexExpr); ok {
						writes[ix] = true
					}
				}
			case *ast.IncDecStmt:
				if ix, ok := n.X.(*ast.IndexExpr); ok {
					writes[ix] = true
				}
			case *ast.IndexExpr:
				accesses = append(accesses, n)
			}
			return true
		})
	}
	if !quiet {
		if os.Getenv("SIMREWRITE_MAPSKIP") != "" {
			for _, ix := range accesses {
				if t := rw.info.TypeOf(ix.X); t != nil {
					if _, ok := t.Underlying().(*types.Map); ok {
						fmt.Fprintf(os.Stderr, "mapskip %s\n", rw.fset.Position(ix.Pos()))
					}
				}
			}
		}
		return nil
	}
	isMap := func(e ast.Expr) bool {
		t := rw.info.TypeOf(e)
		if t == nil {
			return false
		}
		_, ok := t.Underlying().(*types.Map)
		return ok && simpleExpr(e)
	}
	var out []ast.Stmt
	hook := func(m ast.Expr, write bool, pos token.Pos) {
		w := "false"
		if write {
			w = "true"
		}
		st.mapAccesses++
		out = append(out, &ast.ExprStmt{X: &ast.CallExpr{Fun: sel("zzsim", "M"),
			Args: []ast.Expr{m, ast.NewIdent(w), strLit(rw.site(pos))}}})
	}
	for _, ix := range accesses {
		if isMap(ix.X) {
			hook(ix.X, writes[ix], s.Pos())
		}
	}
	for _, m := range deletes {
		if isMap(m) {
			hook(m, true, s.Pos())
		}
	}
	return out
}

// stmt instruments the inside of s and returns its replacement.
func (rw *rewriter) stmt(s ast.Stmt) ast.Stmt {
	switch s := s.(type) {
	case *ast.BlockStmt:
		rw.block(s)
	case *ast.IfStmt:
		if s.Init != nil {
			rw.funcLits(s.Init)
		}
		rw.funcLits(s.Cond)
		rw.block(s.Body)
		if s.Else != nil {
			s.Else = rw.stmt(s.Else)
		}
	case *ast.ForStmt:
		if s.Init != nil {
			rw.funcLits(s.Init)
		}
		if s.Cond != nil {
			rw.funcLits(s.Cond)
		}
		if s.Post != nil {
			rw.funcLits(s.Post)
		}
		rw.block(s.Body)
	case *ast.RangeStmt:
		rw.funcLits(s.X)
		rw.block(s.Body)
		return rw.rangeStmt(s, false)
	case *ast.SwitchStmt:
		if s.Init != nil {
			rw.funcLits(s.Init)
		}
		if s.Tag != nil {
			rw.funcLits(s.Tag)
		}
		rw.clauses(s.Body)
	case *ast.TypeSwitchStmt:
		if s.Init != nil {
			rw.funcLits(s.Init)
		}
		rw.funcLits(s.Assign)
		rw.clauses(s.Body)
	case *ast.SelectStmt:
		rw.clauses(s.Body)
		return rw.selectStmt(s)
	case *ast.LabeledStmt:
		switch inner := s.Stmt.(type) {
		case *ast.RangeStmt:
			rw.funcLits(inner.X)
			rw.block(inner.Body)
			s.Stmt = rw.rangeStmt(inner, true)
		case *ast.SelectStmt:
			rw.clauses(inner.Body)
			n := 0
			for _, c := range inner.Body.List {
				if c.(*ast.CommClause).Comm != nil {
					n++
				}
			}
			if n >= 2 && n == len(inner.Body.List) {
				refuse(rw.fset, s.Pos(), "labelled multi-way select")
			}
		default:
			s.Stmt = rw.stmt(s.Stmt)
		}
	case *ast.GoStmt:
		return rw.goStmt(s)
	case *ast.DeferStmt:
		rw.funcLits(s.Call)
	default:
		rw.funcLits(s)
	}
	return s
}

func (rw *rewriter) clauses(body *ast.BlockStmt) {
	for _, c := range body.List {
		switch c := c.(type) {
		case *ast.CaseClause:
			for _, e := range c.List {
				rw.funcLits(e)
			}
			c.Body = rw.list(c.Body)
		case *ast.CommClause:
			if c.Comm != nil {
				rw.funcLits(c.Comm)
			}
			c.Body = rw.list(c.Body)
		}
	}
}

// goStmt gives the child goroutine a spawn ticket taken in the parent.
func (rw *rewriter) goStmt(g *ast.GoStmt) ast.Stmt {
	st.gos++
	call := g.Call
	ticket := rw.name("t")
	pre := []ast.Stmt{
		&ast.AssignStmt{Lhs: []ast.Expr{ast.NewIdent(ticket)}, Tok: token.DEFINE,
			Rhs: []ast.Expr{&ast.CallExpr{Fun: sel("zzsim", "Spawn"), Args: []ast.Expr{strLit(rw.site(g.Pos()))}}}},
	}
	start := &ast.ExprStmt{X: &ast.CallExpr{Fun: &ast.SelectorExpr{X: ast.NewIdent(ticket), Sel: ast.NewIdent("Start")}}}
	done := &ast.DeferStmt{Call: &ast.CallExpr{Fun: &ast.SelectorExpr{X: ast.NewIdent(ticket), Sel: ast.NewIdent("Done")}}}

	if fl, ok := call.Fun.(*ast.FuncLit); ok {
		rw.block(fl.Body)
		for _, a := range call.Args {
			rw.funcLits(a)
		}
		fl.Body.List = append([]ast.Stmt{start, done}, fl.Body.List...)
		return &ast.BlockStmt{List: append(pre, g)}
	}
	rw.funcLits(call)
	// go f(args): evaluate f and args in the parent, as the go statement does.
	fn := rw.name("f")
	pre = append(pre, &ast.AssignStmt{Lhs: []ast.Expr{ast.NewIdent(fn)}, Tok: token.DEFINE, Rhs: []ast.Expr{call.Fun}})
	var args []ast.Expr
	for _, a := range call.Args {
		tv, ok := rw.info.Types[a]
		if ok && (tv.Value != nil || tv.IsNil()) {
			args = append(args, a)
			continue
		}
		an := rw.name("a")
		pre = append(pre, &ast.AssignStmt{Lhs: []ast.Expr{ast.NewIdent(an)}, Tok: token.DEFINE, Rhs: []ast.Expr{a}})
		args = append(args, ast.NewIdent(an))
	}
	inner := &ast.CallExpr{Fun: ast.NewIdent(fn), Args: args, Ellipsis: call.Ellipsis}
	lit := &ast.FuncLit{
		Type: &ast.FuncType{Params: &ast.FieldList{}},
		Body: &ast.BlockStmt{List: []ast.Stmt{start, done, &ast.ExprStmt{X: inner}}},
	}
	return &ast.BlockStmt{List: append(pre, &ast.GoStmt{Call: &ast.CallExpr{Fun: lit}})}
}

// selectStmt turns a multi-way blocking select into seeded-order polls
// followed by the original select.
func (rw *rewriter) selectStmt(s *ast.SelectStmt) ast.Stmt {
	n := 0
	for _, c := range s.Body.List {
		cc := c.(*ast.CommClause)
		if cc.Comm == nil {
			return s // has a default: never blocks, nothing to decide
		}
		n++
	}
	if n < 2 {
		return s
	}
	for _, c := range s.Body.List {
		cc := c.(*ast.CommClause)
		for _, b := range cc.Body {
			ast.Inspect(b, func(x ast.Node) bool {
				switch x.(type) {
				case *ast.FuncLit:
					return false
				case *ast.LabeledStmt:
					refuse(rw.fset, x.Pos(), "label inside a multi-way select clause")
				}
				return true
			})
		}
	}
	st.selects++
	order := rw.name("o")
	doneV := rw.name("d")
	stmts := []ast.Stmt{
		&ast.AssignStmt{Lhs: []ast.Expr{ast.NewIdent(order)}, Tok: token.DEFINE,
			Rhs: []ast.Expr{&ast.CallExpr{Fun: sel("zzsim", "SelOrder"), Args: []ast.Expr{strLit(rw.site(s.Pos())), intLit(n)}}}},
		&ast.AssignStmt{Lhs: []ast.Expr{ast.NewIdent(doneV)}, Tok: token.DEFINE, Rhs: []ast.Expr{ast.NewIdent("false")}},
	}
	for i := 0; i < n; i++ {
		var cases []ast.Stmt
		for j, c := range s.Body.List {
			cc := c.(*ast.CommClause)
			body := append([]ast.Stmt{
				&ast.AssignStmt{Lhs: []ast.Expr{ast.NewIdent(doneV)}, Tok: token.ASSIGN, Rhs: []ast.Expr{ast.NewIdent("true")}},
			}, cc.Body...)
			poll := &ast.SelectStmt{Body: &ast.BlockStmt{List: []ast.Stmt{
				&ast.CommClause{Comm: cc.Comm, Body: body},
				&ast.CommClause{Comm: nil},
			}}}
			cases = append(cases, &ast.CaseClause{List: []ast.Expr{intLit(j)}, Body: []ast.Stmt{poll}})
		}
		sw := &ast.SwitchStmt{
			Tag:  &ast.IndexExpr{X: ast.NewIdent(order), Index: intLit(i)},
			Body: &ast.BlockStmt{List: cases},
		}
		stmts = append(stmts, &ast.IfStmt{
			Cond: &ast.UnaryExpr{Op: token.NOT, X: ast.NewIdent(doneV)},
			Body: &ast.BlockStmt{List: []ast.Stmt{sw}},
		})
	}
	if terminating(s) {
		// every clause ends the function: a poll that fired never comes
		// here, and the block must stay a terminating statement.
		stmts = append(stmts, s)
	} else {
		stmts = append(stmts, &ast.IfStmt{
			Cond: &ast.UnaryExpr{Op: token.NOT, X: ast.NewIdent(doneV)},
			Body: &ast.BlockStmt{List: []ast.Stmt{s}},
		})
	}
	return &ast.BlockStmt{List: stmts}
}

// terminating is a conservative version of the "terminating statement" rules
// of the language specification (any break inside a loop/switch/select makes
// the answer false).
func terminating(s ast.Stmt) bool {
	switch s := s.(type) {
	case *ast.ReturnStmt:
		return true
	case *ast.BranchStmt:
		return s.Tok == token.GOTO
	case *ast.ExprStmt:
		if c, ok := s.X.(*ast.CallExpr); ok {
			if id, ok := c.Fun.(*ast.Ident); ok && id.Name == "panic" {
				return true
			}
		}
		return false
	case *ast.BlockStmt:
		return termList(s.List)
	case *ast.IfStmt:
		return s.Else != nil && termList(s.Body.List) && terminating(s.Else)
	case *ast.LabeledStmt:
		return terminating(s.Stmt)
	case *ast.ForStmt:
		return s.Cond == nil && !hasBreak(s.Body)
	case *ast.SelectStmt:
		if hasBreak(s.Body) {
			return false
		}
		for _, c := range s.Body.List {
			if !termList(c.(*ast.CommClause).Body) {
				return false
			}
		}
		return true
	case *ast.SwitchStmt:
		return termSwitch(s.Body)
	case *ast.TypeSwitchStmt:
		return termSwitch(s.Body)
	}
	return false
}

func termSwitch(body *ast.BlockStmt) bool {
	if hasBreak(body) {
		return false
	}
	hasDefault := false
	for _, c := range body.List {
		cc := c.(*ast.CaseClause)
		if cc.List == nil {
			hasDefault = true
		}
		if len(cc.Body) > 0 {
			if b, ok := cc.Body[len(cc.Body)-1].(*ast.BranchStmt); ok && b.Tok == token.FALLTHROUGH {
				continue
			}
		}
		if !termList(cc.Body) {
			return false
		}
	}
	return hasDefault
}

func termList(l []ast.Stmt) bool {
	return len(l) > 0 && terminating(l[len(l)-1])
}

func hasBreak(n ast.Node) bool {
	found := false
	ast.Inspect(n, func(x ast.Node) bool {
		switch x := x.(type) {
		case *ast.FuncLit:
			return false
		case *ast.BranchStmt:
			if x.Tok == token.BREAK {
				found = true
			}
		}
		return !found
	})
	return found
}

func simpleExpr(e ast.Expr) bool {
	switch e := e.(type) {
	case *ast.Ident:
		return true
	case *ast.SelectorExpr:
		return simpleExpr(e.X)
	case *ast.ParenExpr:
		return simpleExpr(e.X)
	case *ast.StarExpr:
		return simpleExpr(e.X)
	}
	return false
}

// rangeStmt makes iteration over maps with ordered keys follow the key order.
func (rw *rewriter) rangeStmt(s *ast.RangeStmt, labelled bool) ast.Stmt {
	tv, ok := rw.info.Types[s.X]
	if !ok {
		return s
	}
	m, ok := tv.Type.Underlying().(*types.Map)
	if !ok {
		return s
	}
	if *mapsFlag && simpleExpr(s.X) {
		// every turn of the loop reads the map
		st.mapAccesses++
		hook := &ast.ExprStmt{X: &ast.CallExpr{Fun: sel("zzsim", "M"),
			Args: []ast.Expr{s.X, ast.NewIdent("false"), strLit(rw.site(s.Pos()))}}}
		s.Body.List = append([]ast.Stmt{hook}, s.Body.List...)
	}
	keyName := ""
	switch k := m.Key().(type) {
	case *types.Basic:
		if k.Info()&(types.IsInteger|types.IsString|types.IsFloat) != 0 {
			keyName = k.Name()
		}
	case *types.Named:
		if b, ok := k.Underlying().(*types.Basic); ok && k.Obj().Pkg() == rw.pkg &&
			b.Info()&(types.IsInteger|types.IsString|types.IsFloat) != 0 {
			keyName = k.Obj().Name()
		}
		// an interface of the package itself: the run-time asks the harness
		// for an order of such keys (zzsim.KeyOrder); without one the map's
		// own order stays
		if _, ok := k.Underlying().(*types.Interface); ok && k.Obj().Pkg() == rw.pkg {
			keyName = k.Obj().Name()
		}
	}
	if keyName == "" {
		st.mapRangesSkipped++
		fmt.Fprintf(os.Stderr, "simrewrite: note: %s: map range over unordered key type %s left as is\n",
			rw.fset.Position(s.Pos()), m.Key())
		return s
	}
	st.mapRanges++
	// the code under test meets its maps in an order the run decides (the
	// language promises none); the harness meets its own in sorted order
	keysFn := "SortedKeys"
	if *mapsFlag {
		keysFn = "RangeKeys"
	}
	var pre []ast.Stmt
	mexpr := s.X
	if !simpleExpr(s.X) {
		if labelled {
			refuse(rw.fset, s.Pos(), "labelled range over a non-trivial map expression")
			return s
		}
		mn := rw.name("m")
		pre = append(pre, &ast.AssignStmt{Lhs: []ast.Expr{ast.NewIdent(mn)}, Tok: token.DEFINE, Rhs: []ast.Expr{s.X}})
		mexpr = ast.NewIdent(mn)
	}
	kk := rw.name("k")
	okv := rw.name("ok")
	// key variable
	var keyExpr ast.Expr = ast.NewIdent(rw.name("kv"))
	keyTok := token.DEFINE
	if s.Key != nil {
		if id, isID := s.Key.(*ast.Ident); !isID || id.Name != "_" {
			keyExpr = s.Key
			keyTok = s.Tok
		}
	}
	// (module older than Go 1.22) the variables the loop defines exist once
	// for the whole loop: they are declared in front of it and assigned at
	// every turn, so that a pointer or a closure keeps seeing the last turn
	hoisted := false
	if perLoopVars && s.Tok == token.DEFINE && !labelled {
		zeroKey := &ast.StarExpr{X: &ast.CallExpr{Fun: ast.NewIdent("new"), Args: []ast.Expr{ast.NewIdent(keyName)}}}
		if keyTok == token.DEFINE && keyExpr == s.Key {
			pre = append(pre, &ast.DeclStmt{Decl: &ast.GenDecl{Tok: token.VAR, Specs: []ast.Spec{
				&ast.ValueSpec{Names: []*ast.Ident{s.Key.(*ast.Ident)}, Type: ast.NewIdent(keyName)}}}},
				&ast.AssignStmt{Lhs: []ast.Expr{ast.NewIdent("_")}, Tok: token.ASSIGN, Rhs: []ast.Expr{s.Key}})
			keyTok = token.ASSIGN
		}
		if s.Value != nil {
			if id, isID := s.Value.(*ast.Ident); isID && id.Name != "_" {
				// a lookup gives the variable its type without naming it
				pre = append(pre, &ast.AssignStmt{Lhs: []ast.Expr{id}, Tok: token.DEFINE,
					Rhs: []ast.Expr{&ast.IndexExpr{X: mexpr, Index: zeroKey}}},
					&ast.AssignStmt{Lhs: []ast.Expr{ast.NewIdent("_")}, Tok: token.ASSIGN, Rhs: []ast.Expr{id}})
				hoisted = true
			}
		}
	}
	assertK := &ast.TypeAssertExpr{X: ast.NewIdent(kk), Type: ast.NewIdent(keyName)}
	body := []ast.Stmt{
		&ast.AssignStmt{Lhs: []ast.Expr{keyExpr}, Tok: keyTok, Rhs: []ast.Expr{assertK}},
	}
	var valExpr ast.Expr = ast.NewIdent("_")
	valTok := token.ASSIGN
	if s.Value != nil {
		if id, isID := s.Value.(*ast.Ident); !isID || id.Name != "_" {
			valExpr = s.Value
			valTok = s.Tok
			if hoisted {
				valTok = token.ASSIGN
			}
		}
	}
	lookupTok := token.DEFINE // okv is always new
	if valTok == token.ASSIGN {
		// v (or _) exists already: declare ok separately
		body = append(body, &ast.DeclStmt{Decl: &ast.GenDecl{Tok: token.VAR, Specs: []ast.Spec{
			&ast.ValueSpec{Names: []*ast.Ident{ast.NewIdent(okv)}, Type: ast.NewIdent("bool")}}}})
		lookupTok = token.ASSIGN
	}
	body = append(body,
		&ast.AssignStmt{Lhs: []ast.Expr{valExpr, ast.NewIdent(okv)}, Tok: lookupTok,
			Rhs: []ast.Expr{&ast.IndexExpr{X: mexpr, Index: keyExpr}}},
		&ast.IfStmt{Cond: &ast.UnaryExpr{Op: token.NOT, X: ast.NewIdent(okv)},
			Body: &ast.BlockStmt{List: []ast.Stmt{&ast.BranchStmt{Tok: token.CONTINUE}}}},
	)
	body = append(body, s.Body.List...)
	loop := &ast.RangeStmt{
		Key:   ast.NewIdent("_"),
		Value: ast.NewIdent(kk),
		Tok:   token.DEFINE,
		X:     &ast.CallExpr{Fun: sel("zzsim", keysFn), Args: []ast.Expr{mexpr}},
		Body:  &ast.BlockStmt{List: body},
	}
	if len(pre) == 0 {
		return loop
	}
	return &ast.BlockStmt{List: append(pre, loop)}
}

var _ = sort.Strings
